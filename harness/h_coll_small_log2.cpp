#include "common/coll_engine.hpp"
void run_coll_small_log2(const vf::args& a)
{
    vf_coll::run_sources<foonathan::memory::small_node_pool, foonathan::memory::log2_buckets>(a);
}
