// C19: the arithmetic building blocks against definitional reference implementations.
// groups: small (complete domain 1..65536 x all 64 alignments), boundary (2^k + d, |d| <= 64, x 64 alignments),
// random (seeded 64-bit values), buckets (every size 1..4096, three lists x two bucket distributions).
#include <atomic>
#include <thread>
#include <unordered_set>

#include <foonathan/memory/detail/align.hpp>
#include <foonathan/memory/detail/free_list.hpp>
#include <foonathan/memory/detail/free_list_array.hpp>
#include <foonathan/memory/detail/ilog2.hpp>
#include <foonathan/memory/detail/memory_stack.hpp>
#include <foonathan/memory/detail/small_free_list.hpp>
#include <foonathan/memory/memory_pool_collection.hpp>

#include "common/prng.hpp"
#include "common/report.hpp"

using namespace vf;
using namespace foonathan::memory;
using u128 = unsigned __int128;

// collections with static storage duration, defined before anything else in the program uses a collection: bucket selection must be
// the same as for an object created in main (group buckets, kind static-storage-duration)
namespace globals
{
    memory_pool_collection<node_pool, identity_buckets>       ni(64, 16384);
    memory_pool_collection<node_pool, log2_buckets>           nl(64, 16384);
    memory_pool_collection<array_pool, identity_buckets>      ai(64, 16384);
    memory_pool_collection<array_pool, log2_buckets>          al(64, 16384);
    memory_pool_collection<small_node_pool, identity_buckets> si(64, 16384);
    memory_pool_collection<small_node_pool, log2_buckets>     sl(64, 16384);
} // namespace globals

namespace
{
    long long evals = 0, distinct = 0, unjudged = 0;

    template <class Coll>
    void check_global(Coll& g, const char* name)
    {
        Coll local(64, 16384);
        if (g.max_node_size() != local.max_node_size())
            viol("C19", fmt("C19/buckets-static<%s>/max-node-size", name),
                 "a collection with static storage duration created for nodes up to 64 bytes reports max_node_size() %zu, the same object created in main %zu",
                 g.max_node_size(), local.max_node_size());
        // the bucket chosen for a size has nodes at least that large: nodes of one size do not overlap and keep their contents
        for (std::size_t s = 1; s <= 64; ++s)
        {
            unsigned char* p[4];
            for (int i = 0; i < 4; ++i)
            {
                p[i] = static_cast<unsigned char*>(g.allocate_node(s));
                std::memset(p[i], int(16 * i + 1), s);
            }
            for (int i = 0; i < 4; ++i)
            {
                for (int j = i + 1; j < 4; ++j)
                    if (p[i] < p[j] + s && p[j] < p[i] + s)
                        viol("C19", fmt("C19/buckets-static<%s>/node-smaller-than-size", name),
                             "two live nodes of %zu bytes from a collection with static storage duration are %ld bytes apart: the bucket's nodes are smaller "
                             "than the size it was chosen for",
                             s, long(p[j] - p[i]));
                for (std::size_t k = 0; k < s; ++k)
                    if (p[i][k] != (unsigned char)(16 * i + 1))
                        viol("C19", fmt("C19/buckets-static<%s>/node-smaller-than-size", name), "contents of a live %zu-byte node changed", s);
            }
            for (int i = 0; i < 4; ++i)
                g.deallocate_node(p[i], s);
            ++evals;
        }
    }

    // --- definitional references (loops / 128-bit arithmetic, no bit tricks) ---
    bool ref_round_up(std::uint64_t size, std::uint64_t al, std::uint64_t& out)
    {
        u128 q = (u128(size) + al - 1) / al; // least multiple of al that is >= size
        u128 m = q * al;
        if (m >> 64)
            return false; // not representable
        out = std::uint64_t(m);
        return true;
    }
    std::uint64_t ref_align_offset(std::uint64_t addr, std::uint64_t al)
    {
        auto rem = addr % al;
        return rem ? al - rem : 0;
    }
    std::uint64_t ref_alignment_for(std::uint64_t size)
    {
        std::uint64_t a = 1;
        while (a < detail::max_alignment && size % (a * 2) == 0)
            a *= 2;
        return a;
    }
    unsigned ref_ilog2(std::uint64_t x)
    {
        unsigned r = 0;
        while (x >>= 1)
            ++r;
        return r;
    }
    unsigned ref_ilog2_ceil(std::uint64_t x)
    {
        unsigned r = ref_ilog2(x);
        return (std::uint64_t(1) << r) == x ? r : r + 1;
    }

    void check_pair(std::uint64_t v, std::uint64_t al)
    {
        ++evals;
        std::uint64_t ref;
        if (ref_round_up(v, al, ref))
        {
            auto got = detail::round_up_to_multiple_of_alignment(std::size_t(v), std::size_t(al));
            if (got != ref)
                viol("C19", "C19/round_up_to_multiple_of_alignment/mismatch", "round_up_to_multiple_of_alignment(%llu, %llu) = %llu, least multiple is %llu",
                     (unsigned long long)v, (unsigned long long)al, (unsigned long long)got, (unsigned long long)ref);
        }
        else
            ++unjudged;
        auto off = detail::align_offset(std::uintptr_t(v), std::size_t(al));
        if (off != ref_align_offset(v, al))
            viol("C19", "C19/align_offset/mismatch", "align_offset(%llu, %llu) = %llu, least adjustment is %llu", (unsigned long long)v,
                 (unsigned long long)al, (unsigned long long)off, (unsigned long long)ref_align_offset(v, al));
        bool ia = detail::is_aligned(reinterpret_cast<void*>(std::uintptr_t(v)), std::size_t(al));
        if (ia != (v % al == 0))
            viol("C19", "C19/is_aligned/mismatch", "is_aligned(%llu, %llu) = %d", (unsigned long long)v, (unsigned long long)al, int(ia));
    }
    void check_single(std::uint64_t v)
    {
        if (v == 0)
            return;
        ++evals;
        {
            // the predicate the alignment helpers assert on: exactly the powers of two (all 64 of them) are alignments
            int bits = 0;
            for (int k = 0; k < 64; ++k)
                bits += int((v >> k) & 1);
            bool iv = detail::is_valid_alignment(std::size_t(v));
            if (iv != (bits == 1))
                viol("C19", "C19/is_valid_alignment/mismatch", "is_valid_alignment(%llu) = %d, the value has %d bits set", (unsigned long long)v, int(iv), bits);
        }
        auto af = detail::alignment_for(std::size_t(v));
        if (af != ref_alignment_for(v))
            viol("C19", "C19/alignment_for/mismatch", "alignment_for(%llu) = %llu, largest power of two dividing it (capped at %zu) is %llu",
                 (unsigned long long)v, (unsigned long long)af, detail::max_alignment, (unsigned long long)ref_alignment_for(v));
        auto l = detail::ilog2(v);
        if (l != ref_ilog2(v))
            viol("C19", "C19/ilog2/mismatch", "ilog2(%llu) = %zu, floor(log2) is %u", (unsigned long long)v, l, ref_ilog2(v));
        auto lc = detail::ilog2_ceil(v);
        if (lc != ref_ilog2_ceil(v))
            viol("C19", "C19/ilog2_ceil/mismatch", "ilog2_ceil(%llu) = %zu, ceil(log2) is %u", (unsigned long long)v, lc, ref_ilog2_ceil(v));
        if (v <= (std::uint64_t(1) << 62))
        {
            auto i = detail::log2_access_policy::index_from_size(std::size_t(v));
            auto s = detail::log2_access_policy::size_from_index(i);
            if (s < v || (v > 1 && s >= 2 * v) || (i > 0 && detail::log2_access_policy::size_from_index(i - 1) >= v))
                viol("C19", "C19/log2_access_policy/mismatch", "log2 bucket for size %llu has index %zu and node size %zu", (unsigned long long)v, i, s);
        }
    }

    template <class List, class Policy>
    void check_buckets(const char* lname, const char* pname, std::size_t max_node)
    {
        static char                 storage[1 << 16];
        detail::fixed_memory_stack  st(storage);
        detail::free_list_array<List, Policy> arr(st, storage + sizeof storage, max_node);
        if (arr.max_node_size() < max_node)
            viol("C19", fmt("C19/buckets<%s,%s>/max-node-size", lname, pname), "array created for max node size %zu reports %zu", max_node,
                 arr.max_node_size());
        bool log2 = std::is_same<Policy, detail::log2_access_policy>::value;
        // the selection must also be right after the array was moved and move-assigned (pool collections are movable):
        // onto an array built for a smaller and for a larger maximum
        {
            static char                 other_storage[1 << 16];
            detail::fixed_memory_stack  st2(other_storage);
            std::size_t                 other_max = (max_node % 2) ? std::max<std::size_t>(max_node / 3, 8) : std::min<std::size_t>(max_node * 2, 1024);
            detail::free_list_array<List, Policy> other(st2, other_storage + sizeof other_storage, other_max);
            other = std::move(arr);
            detail::free_list_array<List, Policy> back(std::move(other));
            arr = std::move(back);
            if (arr.max_node_size() < max_node)
                viol("C19", fmt("C19/buckets<%s,%s>/max-node-size", lname, pname), "after move assignment an array created for max node size %zu reports %zu", max_node,
                     arr.max_node_size());
        }
        for (std::size_t s = 1; s <= max_node; ++s)
        {
            ++evals;
            ++distinct;
            auto ns = arr.get(s).node_size();
            auto lo = std::max<std::size_t>(s, List::min_element_size);
            if (ns < s)
                viol("C19", fmt("C19/buckets<%s,%s>/too-small", lname, pname), "bucket chosen for size %zu has nodes of %zu bytes (max node size %zu)", s,
                     ns, max_node);
            if (log2 && ns >= 2 * lo)
                viol("C19", fmt("C19/buckets<%s,%s>/too-large", lname, pname), "log2 bucket chosen for size %zu has nodes of %zu bytes (max node size %zu)",
                     s, ns, max_node);
            if (!log2 && ns != lo)
                viol("C19", fmt("C19/buckets<%s,%s>/identity", lname, pname), "identity bucket chosen for size %zu has nodes of %zu bytes", s, ns);
        }
    }
} // namespace

int main(int argc, char** argv)
{
    auto a = parse_args(argc, argv, "h_arith");
    // one "case" = one chunk of a domain; chunks are given by --cases
    for (long c = a.from; c < a.to; ++c)
    {
        if (a.group == "small")
            run_case("small-domain", c, [&] {
                // chunk c covers values c*1024+1 .. (c+1)*1024 (64 chunks = 1..65536), all 64 alignments
                op("values %ld..%ld x alignments 2^0..2^63", c * 1024 + 1, (c + 1) * 1024);
                for (std::uint64_t v = std::uint64_t(c) * 1024 + 1; v <= std::uint64_t(c + 1) * 1024; ++v)
                {
                    check_single(v);
                    for (int k = 0; k < 64; ++k)
                        check_pair(v, std::uint64_t(1) << k);
                    distinct += 65;
                }
                flag("exhaustive");
            });
        else if (a.group == "boundary")
            run_case("boundary", c, [&] {
                // chunk c = exponent k: 2^k + d for |d| <= 64
                int k = int(c);
                op("2^%d + d, |d| <= 64, x alignments 2^0..2^63", k);
                std::unordered_set<std::uint64_t> seen;
                for (int d = -64; d <= 64; ++d)
                {
                    std::uint64_t base = k == 64 ? 0 : std::uint64_t(1) << k; // k == 64: wrap-around neighbourhood of 2^64
                    std::uint64_t v    = base + std::uint64_t(std::int64_t(d));
                    if (!seen.insert(v).second)
                        continue;
                    check_single(v);
                    for (int j = 0; j < 64; ++j)
                        check_pair(v, std::uint64_t(1) << j);
                    distinct += 65;
                }
                flag("boundary");
            });
        else if (a.group == "random")
            run_case("random", c, [&] {
                auto r = case_rng(a.seed, a.group, "random", c);
                long n = a.num("samples", 100000);
                op("chunk %ld: %ld seeded 64-bit values (shifted by a seeded amount) x one seeded alignment each", c, n);
                std::unordered_set<std::uint64_t> seen;
                for (long i = 0; i < n; ++i)
                {
                    std::uint64_t v  = r.next() >> r.below(64);
                    auto          k  = r.below(64);
                    auto          al = std::uint64_t(1) << k;
                    check_single(v);
                    check_pair(v, al);
                    // distinct inputs are counted only for runs small enough to remember them (otherwise: counted as 0, conservatively)
                    if (n <= 2000000 && seen.insert(v * 67 + k).second)
                        ++distinct;
                }
                flag("random");
            });
        else if (a.group == "buckets")
            run_case("buckets", c, [&] {
                // chunk c = max node size variant
                // (a maximum below the lists' minimum node size is a valid node size too)
                static const std::size_t maxes[] = {4096, 4095, 4097, 1000, 129, 64, 17, 8, 7, 5, 4, 3, 2, 1, 9, 16};
                auto                     m       = maxes[c % 16];
                op("every size 1..%zu, three lists x identity/log2", m);
                check_buckets<detail::free_memory_list, detail::identity_access_policy>("node", "identity", std::min<std::size_t>(m, 1024));
                check_buckets<detail::ordered_free_memory_list, detail::identity_access_policy>("ordered", "identity", std::min<std::size_t>(m, 1024));
                check_buckets<detail::small_free_memory_list, detail::identity_access_policy>("small", "identity", std::min<std::size_t>(m, 1000));
                check_buckets<detail::free_memory_list, detail::log2_access_policy>("node", "log2", m);
                check_buckets<detail::ordered_free_memory_list, detail::log2_access_policy>("ordered", "log2", m);
                check_buckets<detail::small_free_memory_list, detail::log2_access_policy>("small", "log2", m);
                flag("buckets");
            });
        else if (a.group == "buckets-threads")
            run_case("buckets-threads", c, [&] {
                // bucket selection is a pure function of the size: several threads, each with free list arrays of its own and a size
                // range of its own, must all get the answers the single-threaded reference gives
                int nthreads = 2 + int(c % 5);
                op("%d threads selecting buckets at once (own arrays, different size ranges)", nthreads);
                std::atomic<long> wrong{0}, lookups{0};
                std::atomic<int>  ready{0};
                std::vector<std::thread> th;
                for (int t = 0; t < nthreads; ++t)
                    th.emplace_back([&, t] {
                        static thread_local char    storage[1 << 15];
                        detail::fixed_memory_stack  st(storage);
                        std::size_t                 max_node = std::size_t(64) << (t % 5);
                        detail::free_list_array<detail::free_memory_list, detail::log2_access_policy>  lg(st, storage + sizeof storage, max_node);
                        detail::free_list_array<detail::small_free_memory_list, detail::identity_access_policy> id(st, storage + sizeof storage, 64);
                        ready.fetch_add(1);
                        while (ready.load() < nthreads)
                            std::this_thread::yield();
                        rng  r(std::uint64_t(a.seed) * 7919 + std::uint64_t(c) * 131 + std::uint64_t(t));
                        long n = a.num("lookups", 200000);
                        for (long i = 0; i < n; ++i)
                        {
                            std::size_t s  = r.range(1, max_node);
                            auto        ns = lg.get(s).node_size();
                            std::size_t lo = std::max<std::size_t>(s, 8);
                            if (ns < lo || ns >= 2 * lo || (ns & (ns - 1)) != 0)
                                wrong.fetch_add(1, std::memory_order_relaxed);
                            if (detail::log2_access_policy::index_from_size(s) != ref_ilog2_ceil(s)
                                || detail::log2_access_policy::size_from_index(ref_ilog2_ceil(s)) != (std::size_t(1) << ref_ilog2_ceil(s)))
                                wrong.fetch_add(1, std::memory_order_relaxed);
                            std::size_t s2 = r.range(1, 64);
                            if (id.get(s2).node_size() != s2)
                                wrong.fetch_add(1, std::memory_order_relaxed);
                        }
                        lookups.fetch_add(n);
                    });
                for (auto& t : th)
                    t.join();
                evals += lookups.load();
                count("concurrent_lookups", lookups.load());
                if (wrong.load())
                    viol("C19", "C19/buckets-threads/mismatch",
                         "%ld of %ld bucket selections made while other threads were selecting buckets for other sizes disagree with the reference", wrong.load(),
                         lookups.load());
                flag("buckets");
            });
        else if (a.group == "buckets-static")
            run_case("buckets-static", c, [&] {
                op("collections with static storage duration, every size 1..64");
                check_global(globals::ni, "node,identity");
                check_global(globals::nl, "node,log2");
                check_global(globals::ai, "array,identity");
                check_global(globals::al, "array,log2");
                check_global(globals::si, "small,identity");
                check_global(globals::sl, "small,log2");
                flag("buckets");
            });
    }
    count("evals", evals);
    count("distinct_inputs", distinct);
    count("not_representable_unjudged", unjudged);
    finish();
    return 0;
}
