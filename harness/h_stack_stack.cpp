#include "common/stack_engine.hpp"
void run_stacks(const vf::args& a)
{
    using namespace vf;
    vf_stack::run_stack_kind<src_grow>(a);
    vf_stack::run_stack_kind<src_fixed>(a);
    vf_stack::run_stack_kind<src_blk>(a);
    vf_stack::run_stack_kind<src_static>(a);
    vf_stack::run_stack_kind<src_virtual>(a);
}
