// C18: an allocator constructed with min_block_size(...) serves what was asked for without growing.
// groups: grid (pool: node size x node count), stack (memory_stack / memory_arena byte sizes)
// kind: pool<node|array|small>; one case = one node size, all counts of the chunk (--lo..--hi, --step)
#include <foonathan/memory/memory_pool.hpp>
#include <foonathan/memory/memory_stack.hpp>

#include "common/prng.hpp"
#include "common/report.hpp"

using namespace vf;
using namespace foonathan::memory;

namespace
{
    long acquired = 0, released = 0;
    struct count_raw
    {
        using is_stateful = std::true_type;
        void* allocate_node(std::size_t size, std::size_t)
        {
            ++acquired;
            auto p = std::aligned_alloc(16, (size + 15) / 16 * 16);
            if (!p)
                throw std::bad_alloc();
            return p;
        }
        void deallocate_node(void* p, std::size_t, std::size_t) noexcept
        {
            ++released;
            std::free(p);
        }
    };

    long long pools = 0, served = 0;

    template <class PT>
    void pool_grid(const args& a, const char* tname)
    {
        std::string kind = std::string("pool<") + tname + ">";
        if (a.kind != "all" && a.kind != kind)
            return;
        using P   = memory_pool<PT, count_raw>;
        using ctr = composable_allocator_traits<P>;
        long lo = a.num("lo", 1), hi = a.num("hi", 2000);
        bool boundary = a.num("boundary", 0) != 0;
        for (long c = a.from; c < a.to; ++c)
            run_case(kind, c, [&] {
                std::size_t s = std::size_t(c); // the case index is the node size
                auto        r = case_rng(a.seed, a.group, kind, c);
                op("node size %zu, counts %ld..%ld%s", s, lo, hi, boundary ? " (boundary classes + seeded sample)" : " (all)");
                for (long n = lo; n <= hi; ++n)
                {
                    if (boundary)
                    {
                        // counts around multiples of the small list's chunk capacity (255), small counts, and a seeded sample
                        auto m = n % 255;
                        bool interesting = n <= 16 || m <= 2 || m >= 253 || (n & (n - 1)) == 0 || r.chance(2);
                        if (!interesting)
                            continue;
                    }
                    auto bs   = P::min_block_size(s, std::size_t(n));
                    auto acq0 = acquired;
                    P    pool(s, bs);
                    ++pools;
                    auto ns  = pool.node_size();
                    auto cap = pool.capacity_left() / ns;
                    if (cap < std::size_t(n))
                        viol("C18", "C18/" + kind + "/min-block-size-short",
                             "a pool for nodes of %zu bytes created with min_block_size(%zu, %ld) = %zu reports room for only %zu nodes", s, s, n, bs, cap);
                    // actually take them (always for small counts, otherwise for a seeded sample)
                    if (n <= 64 || r.chance(boundary ? 20 : 2))
                    {
                        std::vector<void*> got;
                        for (long i = 0; i < n; ++i)
                        {
                            void* p = ctr::try_allocate_node(pool, ns, 1);
                            if (!p)
                                viol("C18", "C18/" + kind + "/min-block-size-short",
                                     "a pool created with min_block_size(%zu, %ld) served only %ld nodes without growing", s, n, i);
                            got.push_back(p);
                        }
                        served += n;
                        for (auto p : got)
                            ctr::try_deallocate_node(pool, p, ns, 1);
                    }
                    if (acquired != acq0 + 1)
                        viol("C18", "C18/" + kind + "/min-block-size-short", "the pool acquired %ld blocks", acquired - acq0);
                    // next_capacity() is what the next block will add
                    if (r.chance(boundary ? 5 : 1))
                    {
                        auto nc   = pool.next_capacity();
                        auto cap0 = pool.capacity_left();
                        std::vector<void*> got;
                        while (pool.capacity_left() >= ns)
                            got.push_back(pool.allocate_node());
                        auto a0 = acquired;
                        got.push_back(pool.allocate_node()); // grows
                        if (acquired != a0 + 1)
                            viol("C18", "C18/" + kind + "/growth", "a node request on an empty pool acquired %ld blocks", acquired - a0);
                        auto added = pool.capacity_left() + ns;
                        if (added != nc)
                            viol("C18", "C18/" + kind + "/next-capacity", "next_capacity() announced %zu bytes, the new block added %zu (node size %zu)", nc,
                                 added, ns);
                        (void)cap0;
                        for (auto p : got)
                            pool.deallocate_node(p);
                        count("growth_checks");
                    }
                }
                flag("grid");
            });
    }

    void stack_sizes(const args& a)
    {
        std::string kind = "stack+arena";
        if (a.kind != "all" && a.kind != kind)
            return;
        for (long c = a.from; c < a.to; ++c)
            run_case(kind, c, [&] {
                // chunk c: byte sizes c*256+1 .. (c+1)*256
                op("byte sizes %ld..%ld", c * 256 + 1, (c + 1) * 256);
                for (std::size_t n = std::size_t(c) * 256 + 1; n <= std::size_t(c + 1) * 256; ++n)
                {
                    {
                        auto                    a0 = acquired;
                        memory_stack<count_raw> st(memory_stack<count_raw>::min_block_size(n));
                        ++pools;
                        if (st.capacity_left() < n)
                            viol("C18", "C18/stack/min-block-size-short", "memory_stack created with min_block_size(%zu) has capacity_left() %zu", n,
                                 st.capacity_left());
                        if (detail::debug_fence_size == 0)
                        {
                            void* p = st.allocate(n, 1);
                            (void)p;
                            if (acquired != a0 + 1)
                                viol("C18", "C18/stack/min-block-size-short", "memory_stack created with min_block_size(%zu) grew for a request of %zu bytes",
                                     n, n);
                            if (st.capacity_left() != 0)
                                viol("C18", "C18/stack/min-block-size-exact", "after allocating the %zu bytes min_block_size was asked for, %zu are left", n,
                                     st.capacity_left());
                        }
                    }
                    {
                        using A = memory_arena<growing_block_allocator<count_raw>, false>;
                        A    arena(A::min_block_size(n));
                        auto nb = arena.next_block_size();
                        auto b  = arena.allocate_block();
                        ++pools;
                        if (b.size < n)
                            viol("C18", "C18/arena/min-block-size-short", "memory_arena created with min_block_size(%zu) hands out a block of %zu bytes", n,
                                 b.size);
                        if (b.size != nb)
                            viol("C18", "C18/arena/next-block-size", "next_block_size() announced %zu, block has %zu", nb, b.size);
                    }
                }
                flag("grid");
            });
    }
} // namespace

int main(int argc, char** argv)
{
    auto a = parse_args(argc, argv, "h_cap");
    if (a.group == "grid")
    {
        pool_grid<node_pool>(a, "node");
        pool_grid<array_pool>(a, "array");
        pool_grid<small_node_pool>(a, "small");
    }
    else
        stack_sizes(a);
    count("constructions", pools);
    count("nodes_served", served);
    if (acquired != released)
        viol_nothrow("C05", "C05/h_cap/not-balanced", fmt("%ld blocks acquired, %ld released", acquired, released));
    finish();
    return 0;
}
