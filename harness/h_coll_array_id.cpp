#include "common/coll_engine.hpp"
void run_coll_array_id(const vf::args& a)
{
    vf_coll::run_sources<foonathan::memory::array_pool, foonathan::memory::identity_buckets>(a);
}
