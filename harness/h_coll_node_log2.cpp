#include "common/coll_engine.hpp"
void run_coll_node_log2(const vf::args& a)
{
    vf_coll::run_sources<foonathan::memory::node_pool, foonathan::memory::log2_buckets>(a);
}
