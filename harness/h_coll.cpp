// History engine for memory_pool_collection<node|array|small, identity|log2> over every block source.
// Oracles as in h_pool.cpp, with per-bucket capacity figures (pool_capacity_left) instead of one.
#include "common/core.hpp"

using namespace vf;

void run_coll_node_id(const vf::args&);
void run_coll_array_id(const vf::args&);
void run_coll_small_id(const vf::args&);
void run_coll_node_log2(const vf::args&);
void run_coll_array_log2(const vf::args&);
void run_coll_small_log2(const vf::args&);

int main(int argc, char** argv)
{
    auto a               = parse_args(argc, argv, "h_coll");
    cx().nontrivial_rule = history_rule;
    install_recording_handlers();
    run_coll_node_id(a);
    run_coll_array_id(a);
    run_coll_small_id(a);
    run_coll_node_log2(a);
    run_coll_array_log2(a);
    run_coll_small_log2(a);
    finish();
    return 0;
}
