// History engines for memory_stack (C06 and friends), iteration_allocator<N> (C07) and static_allocator.
#pragma once
#include <algorithm>

#include <foonathan/memory/iteration_allocator.hpp>
#include <foonathan/memory/memory_stack.hpp>
#include <foonathan/memory/static_allocator.hpp>

#include "core.hpp"

namespace vf_stack
{
    using namespace vf;
    using namespace foonathan::memory;

    static constexpr std::size_t F = detail::debug_fence_size;

    //=== memory_stack ===//
    template <class Src>
    struct stack_engine
    {
        using S   = memory_stack<typename Src::arg>;
        using tr  = allocator_traits<S>;
        using ctr = composable_allocator_traits<S>;

        struct logrec
        {
            std::size_t size, align;
            char*       addr;
        };
        struct mark
        {
            typename S::marker m;
            std::size_t        cap;
            std::size_t        log_pos;
            unsigned           id_floor;
            std::size_t        block_index;
            bool               purged = false; // shrink_to_fit since the marker was taken
            bool               no_replay = false; // a refused request moved the stack on since: later addresses are not those of a replay
        };
        struct unit
        {
            std::shared_ptr<Src> src = std::make_shared<Src>();
            placed<S>            obj;
            shadow               sh;
            std::ptrdiff_t       net = 0;
            std::vector<logrec>  log;
            std::vector<mark>    marks;
            std::vector<const char*> used; // upstream blocks in use, in order
            std::size_t          cached = 0;
            int                  refused = 0;
            std::map<const char*, const char*> block_end;
        };

        rng&                               r;
        std::string                        kind;
        bool                               member;
        std::vector<std::unique_ptr<unit>> units;
        std::vector<std::shared_ptr<Src>>  keep;
        false_report_guard                 frg;
        std::size_t                        bs0;

        stack_engine(rng& rr, const std::string& k) : r(rr), kind(k) {}
        std::string key(const char* prop, const char* what)
        {
            return std::string(prop) + "/" + kind + "/" + what;
        }

        std::unique_ptr<unit> fresh(placement where)
        {
            std::unique_ptr<unit> u(new unit);
            keep.push_back(u->src);
            auto  bs   = u->src->fix_block_size(bs0);
            void* mem  = place_storage(u->obj, u->src->probe(), where);
            if (auto pr = u->src->probe())
                if (pr->region && r.chance(50))
                {
                    pr->region_down = true; // later blocks at lower addresses: marker order must not depend on block addresses
                    flag("descending-blocks");
                }
            u->obj.obj = u->src->template construct<S>(mem, bs);
            u->src->check();
            if (u->src->outstanding() != 1)
                viol("C05", key("C05", "ctor-blocks"), "a fresh memory_stack holds %zu upstream blocks", u->src->outstanding());
            // the first block: find it through an address inside it
            u->used.push_back(u->src->newest_block());
            return u;
        }

        // returns false if no request is possible right now
        bool gen_size(S& s, std::size_t& size, std::size_t& align)
        {
            auto cap   = s.capacity_left();
            auto next  = s.next_capacity();
            auto limit = std::max(cap, next) / 3;
            if (limit == 0)
                return false;
            // blocks double on growth: keep requests small most of the time, or every case ends in megabyte blocks
            if (!r.chance(4))
                limit = std::min<std::size_t>(limit, 1500);
            align = std::size_t(1) << (r.chance(70) ? r.below(5) : r.below(10));
            switch (r.below(5))
            {
            case 0:
                size = r.range(1, std::min<std::size_t>(limit, 24));
                break;
            case 1:
                size = r.range(1, std::min<std::size_t>(limit, 300));
                break;
            case 2:
                size = r.range(1, limit);
                break;
            case 3: // the last bytes of the block
                size  = cap > 2 * F + 2 ? cap - 2 * F - r.below(3) : 1;
                align = 1;
                if (size > limit * 3)
                    size = limit;
                break;
            default:
                size = r.range(1, std::min<std::size_t>(limit, 64));
                break;
            }
            auto need = size + align - 1 + 2 * F;
            if (need > cap)
            {
                // it will not fit the current block
                if (!next)
                    return r.chance(20); // fixed source: only sometimes (out_of_memory expected)
                // documented: a request must fit into a fresh block, otherwise bad_allocation_size
                while (align > 1 && size + align - 1 + 2 * F + 32 > next)
                    align >>= 1;
                if (size + align - 1 + 2 * F + 32 > next)
                    size = std::max<std::size_t>(next / 3, 1);
                if (size + align - 1 + 2 * F > next)
                    return false; // tiny blocks (min_block_size of a few bytes) with fences: nothing fits a fresh block
            }
            return true;
        }

        void note_alloc(unit& u, void* vp, std::size_t size, std::size_t align, std::size_t cap0, std::size_t nc0, long acq0, bool via_try)
        {
            S&   s   = *u.obj;
            auto ptr = static_cast<char*>(vp);
            u.sh.add([&](const char* a, std::size_t n) { return u.src->owns(a, n); }, ptr, false, 1, size, align);
            auto b = u.src->block_of(ptr);
            bool acquired = u.src->acquisitions() != acq0;
            auto cap1     = s.capacity_left();
            if (b != u.used.back())
            {
                // entered another block
                if (via_try)
                    viol("C03", key("C03", "try-grew"), "try_allocate moved to another block");
                if (acquired && u.cached > 0)
                    viol("C05", key("C05", "upstream-asked-with-cache"),
                         "a new block was requested from the block source although %zu cached blocks were available", u.cached);
                if (!acquired)
                {
                    if (u.cached == 0)
                        viol("C05", key("C05", "block-from-nowhere"), "the stack moved to a block that was neither cached nor newly acquired");
                    --u.cached;
                    flag("cache-reuse");
                    count("cache_reuse");
                }
                else
                {
                    flag("grow");
                    count("grow");
                }
                u.used.push_back(b);
                // growth adds what next_capacity() announced
                auto consumed = std::size_t(ptr + size + F - (b + 0)); // from block start as seen by the upstream
                (void)consumed;
                if (cap1 > nc0 || nc0 - cap1 < size)
                    viol("C18", key("C18", "growth-delta"), "after growing capacity_left() is %zu, next_capacity() had announced %zu, request was %zu bytes",
                         cap1, nc0, size);
                if (nc0 - cap1 > size + 2 * F + align - 1 + 16)
                    viol("C18", key("C18", "growth-delta"),
                         "after growing capacity_left() is %zu although next_capacity() announced %zu and the request needs at most %zu", cap1, nc0,
                         size + 2 * F + align - 1);
            }
            else
            {
                if (acquired)
                    viol("C05", key("C05", "acquired-without-need"), "a block was acquired although the allocation was served from the current block");
                if (cap0 < cap1 || cap0 - cap1 < size || cap0 - cap1 > size + 2 * F + align - 1)
                    viol("C18", key("C18", "alloc-delta"), "capacity_left went %zu -> %zu for a request of %zu bytes aligned %zu (fence %zu)", cap0, cap1,
                         size, align, F);
            }
            // (ptr + size + fence) + capacity_left() is the end of the block: constant while in this block
            auto end = ptr + size + F + cap1;
            auto it  = u.block_end.find(b);
            if (it == u.block_end.end())
                u.block_end[b] = end;
            else if (it->second != end)
                viol("C18", key("C18", "block-end-moves"), "pointer + size + fence + capacity_left() changed by %td within one block",
                     end - it->second);
            if (!u.src->owns(ptr, size + cap1 + F))
                viol("C18", key("C18", "capacity-beyond-block"), "capacity_left() %zu reaches beyond the upstream block", cap1);
            u.log.push_back({size, align, ptr});
            if (align > alignof(std::max_align_t))
                flag("overaligned");
            if (u.sh.live.size() > 1)
                flag("multi-live");
        }

        void do_alloc(unit& u, bool try_)
        {
            S&          s = *u.obj;
            std::size_t size, align;
            if (!gen_size(s, size, align))
                return;
            bool arr = !member && !try_ && r.chance(20);
            std::size_t count = 1;
            if (arr)
            {
                count = r.range(1, 5);
                size  = std::max<std::size_t>(size / count, 1);
            }
            op("%s%s %zux%zu/%zu", try_ ? "try_" : "", arr ? "array" : "node", count, size, align);
            auto  cap0 = s.capacity_left();
            auto  nc0  = s.next_capacity();
            auto  acq0 = u.src->acquisitions();
            auto  att0 = u.src->attempts();
            auto  oom0 = hl().oom;
            void* ptr  = nullptr;
            try
            {
                if (try_)
                    ptr = member ? s.try_allocate(size, align) : ctr::try_allocate_node(s, size, align);
                else if (member)
                    ptr = s.allocate(size, align);
                else
                    ptr = arr ? tr::allocate_array(s, count, size, align) : tr::allocate_node(s, size, align);
            }
            catch (out_of_memory&)
            {
                if (try_)
                    viol("C03", key("C03", "try-threw"), "try_allocate threw");
                if (hl().oom == oom0)
                    viol("C03", key("C03", "oom-handler-not-called"), "out_of_memory thrown without calling its handler");
                count_ev("out_of_memory_thrown");
                flag("exhausted");
                u.src->check();
                u.sh.sweep();
                if (s.capacity_left() != cap0)
                    viol("C18", key("C18", "failed-alloc-changed-capacity"), "capacity_left changed %zu -> %zu across a failed allocation", cap0,
                         s.capacity_left());
                return;
            }
            u.src->check();
            if (try_)
            {
                count_ev("try_alloc");
                if (u.src->attempts() != att0)
                    viol("C03", key("C03", "try-grew"), "try_allocate asked the block source for memory");
                if (!ptr)
                {
                    count_ev("try_null");
                    if (cap0 >= size + 2 * F + align - 1)
                        viol("C18", key("C18", "try-null-with-capacity"), "try_allocate(%zu, %zu) returned null although capacity_left() was %zu", size,
                             align, cap0);
                    if (s.capacity_left() != cap0)
                        viol("C18", key("C18", "failed-try-changed-capacity"), "capacity_left changed across a failed try_allocate");
                    return;
                }
            }
            else
                count_ev("alloc");
            note_alloc(u, ptr, count * size, align, cap0, nc0, acq0, try_);
            if (!member && !try_)
                u.net += std::ptrdiff_t(count * size);
            frg.check("allocate");
        }
        static void count_ev(const char* e)
        {
            vf::count(e);
        }

        // a request above next_capacity(): documented to end in bad_allocation_size (on a fixed source the growth fails first). The
        // stack has to stay usable: the next request is served and accounted for like any other, wherever the stack stands now
        // (the library moves on to the next block before it rejects the size; the model follows the one-byte request that comes next)
        void do_refused(unit& u)
        {
            S& s = *u.obj;
            // (the request that follows must fit into the block the stack moves on to, fences included: otherwise it grows a second time
            //  and the figures noted before the refusal describe another block)
            if (u.refused >= 2 || s.next_capacity() > (std::size_t(1) << 18) || s.next_capacity() < 64 + 2 * F)
                return;
            ++u.refused;
            auto nc0  = s.next_capacity();
            auto cap0 = s.capacity_left();
            auto acq0 = u.src->acquisitions();
            auto size = std::max(nc0, cap0) + 1 + r.below(64);
            op("refused request %zu (capacity_left %zu, next_capacity %zu)", size, cap0, nc0);
            also_scope as("C06", "C01 C05 C18");
            try
            {
                void* p = s.allocate(size, 1);
                (void)p;
                viol("C18", key("C18", "above-maximum-succeeded"), "allocate(%zu) succeeded although capacity_left() was %zu and next_capacity() %zu", size, cap0, nc0);
            }
            catch (bad_allocation_size&)
            {
                count_ev("refused_oversize");
                flag("refused");
            }
            catch (out_of_memory&)
            {
                count_ev("out_of_memory_thrown");
                u.src->check();
                if (s.capacity_left() != cap0)
                    viol("C18", key("C18", "failed-alloc-changed-capacity"), "capacity_left changed %zu -> %zu across a failed allocation", cap0, s.capacity_left());
                return;
            }
            u.src->check();
            u.sh.sweep();
            // everything below the top is untouched and the markers still order: the top is not below any marker taken before
            for (auto& m : u.marks)
                m.no_replay = true;
            for (auto& m : u.marks)
                if (s.top() < m.m)
                    viol("C06", key("C06", "marker-order"), "after a refused request top() compares less than a marker taken before it");
            auto nc1  = s.next_capacity();
            auto cap1 = s.capacity_left();
            auto att1 = u.src->acquisitions();
            (void)att1;
            void* p = nullptr;
            try
            {
                p = s.allocate(1, 1);
            }
            catch (out_of_memory&)
            {
                return;
            }
            u.src->check();
            // moved to another block by the refused request: the capacity there is what next_capacity() had announced before it
            note_alloc(u, p, 1, 1, u.src->block_of(static_cast<char*>(p)) == u.used.back() ? cap1 : cap0, u.src->block_of(static_cast<char*>(p)) == u.used.back() ? nc1 : nc0, acq0, false);
            frg.check("allocation after a refused request");
        }

        // traits-level deallocate: a no-op for the memory, but it moves the leak counter (C15)
        void do_dealloc(unit& u)
        {
            if (u.sh.live.empty() || member)
                return;
            S&   s  = *u.obj;
            auto it = u.sh.pick(r);
            auto p  = it->first;
            auto e  = u.sh.retire(p);
            op("dealloc #%u (%zu bytes)", e.id, e.n);
            auto cap0 = s.capacity_left();
            if (r.chance(30))
            {
                if (!ctr::try_deallocate_node(s, p, e.n, e.align))
                    viol("C08", key("C08", "refused-own"), "try_deallocate_node refused memory of this stack");
            }
            else
            {
                tr::deallocate_node(s, p, e.n, e.align);
                u.net -= std::ptrdiff_t(e.n);
            }
            if (s.capacity_left() != cap0)
                viol("C18", key("C18", "dealloc-changed-capacity"), "deallocate on a stack changed capacity_left()");
            u.src->check();
            count_ev("dealloc");
            flag("release");
        }

        void do_mark(unit& u)
        {
            S& s = *u.obj;
            op("top");
            mark m{s.top(), s.capacity_left(), u.log.size(), u.sh.next_id, u.used.size() - 1, false};
            // consistent total order with every still valid marker
            for (auto& o : u.marks)
                compare(o, m);
            u.marks.push_back(m);
            count_ev("markers");
        }
        void compare(const mark& older, const mark& newer)
        {
            bool same = older.log_pos == newer.log_pos;
            auto &a = older.m, &b = newer.m;
            bool ok = same ? (a == b && !(a != b) && !(a < b) && !(a > b) && a <= b && a >= b && b == a && !(b < a)) :
                             (a < b && b > a && a <= b && b >= a && a != b && !(a == b) && !(b < a) && !(a > b) && !(b <= a) && !(a >= b));
            count_ev("marker_comparisons");
            if (!ok)
                viol("C06", key("C06", "marker-order"), "comparison operators disagree with the order in which two markers were taken (%s)",
                     same ? "no allocation in between: must be equal" : "allocation in between: older must be less");
        }

        void do_unwind(unit& u)
        {
            if (u.marks.empty())
                return;
            S&   s   = *u.obj;
            auto idx = r.chance(60) ? u.marks.size() - 1 : r.below(u.marks.size());
            auto m   = u.marks[idx];
            op("unwind to marker %zu of %zu", idx, u.marks.size());
            // everything younger dies now: it must be intact until this moment
            std::vector<std::pair<char*, shadow_ent>> dying;
            for (auto& kv : u.sh.live)
                if (kv.second.id >= m.id_floor)
                    dying.push_back(kv);
            for (auto& kv : dying)
                u.sh.verify(kv.first, kv.second);
            auto rel0 = u.src->releases();
            auto att0 = u.src->attempts();
            s.unwind(m.m);
            // the property's own clauses first (a broken unwind may also trip the library's pointer check, judged below)
            if (s.capacity_left() != m.cap)
                viol("C06", key("C06", "capacity-after-unwind"), "capacity_left() after unwind is %zu, it was %zu when the marker was taken",
                     s.capacity_left(), m.cap);
            if (!(s.top() == m.m))
                viol("C06", key("C06", "top-after-unwind"), "top() after unwind(m) does not compare equal to m");
            u.src->check();
            {
                // a valid unwind that the library reports as invalid (the default handler ends the program) did not restore anything
                also_scope reported("C06", "C16");
                frg.check("unwind");
            }
            if (u.src->releases() != rel0)
                viol("C06", key("C06", "unwind-released-upstream"), "unwind returned %ld blocks to the block source instead of keeping them for reuse",
                     u.src->releases() - rel0);
            if (u.src->attempts() != att0)
                viol("C05", key("C05", "unwind-acquired"), "unwind asked the block source for memory");
            u.sh.drop_if([&](char*, const shadow_ent& e) { return e.id >= m.id_floor; });
            u.sh.sweep(); // everything older is untouched
            if (s.capacity_left() != m.cap)
                viol("C06", key("C06", "capacity-after-unwind"), "capacity_left() after unwind is %zu, it was %zu when the marker was taken",
                     s.capacity_left(), m.cap);
            if (m.block_index + 1 < u.used.size())
            {
                flag("unwind-across-blocks");
                u.cached += u.used.size() - 1 - m.block_index;
                for (auto i = m.block_index + 1; i < u.used.size(); ++i)
                    u.block_end.erase(u.used[i]);
                u.used.resize(m.block_index + 1);
            }
            // markers: the unwound one stays valid, younger ones die
            u.marks.erase(u.marks.begin() + long(idx) + 1, u.marks.end());
            if (!(s.top() == m.m))
                viol("C06", key("C06", "top-after-unwind"), "top() after unwind(m) does not compare equal to m");
            // replay: the requests that followed the marker originally give the same addresses
            std::vector<logrec> expect(u.log.begin() + long(m.log_pos), u.log.begin() + long(std::min(u.log.size(), m.log_pos + 6)));
            u.log.resize(m.log_pos);
            flag("unwind");
            count_ev("unwinds");
            if (!expect.empty() && !m.no_replay && r.chance(70))
            {
                // "behaves as it did when m was taken": what the capacity / block-source oracles find during the replay is C06's too
                also_scope replaying("C06", "C01 C05 C18");
                op("replay %zu requests", expect.size());
                for (auto& e : expect)
                {
                    auto cap0 = s.capacity_left();
                    auto nc0  = s.next_capacity();
                    auto acq0 = u.src->acquisitions();
                    void* p;
                    try
                    {
                        p = member ? s.allocate(e.size, e.align) : tr::allocate_node(s, e.size, e.align);
                    }
                    catch (out_of_memory&)
                    {
                        viol("C06", key("C06", "replay-failed"), "a request that succeeded after the marker was taken fails after unwinding to it");
                    }
                    u.src->check();
                    if (!member)
                        u.net += std::ptrdiff_t(e.size);
                    bool same_block_as_now = u.src->block_of((char*)p) == u.used.back();
                    if (p != e.addr && (!m.purged || same_block_as_now))
                        viol("C06", key("C06", "replay-address"),
                             "after unwind the same request (%zu bytes, align %zu) returned an address %td bytes away from the original one", e.size,
                             e.align, (char*)p - e.addr);
                    note_alloc(u, p, e.size, e.align, cap0, nc0, acq0, false);
                    count_ev("replayed_requests");
                }
                flag("replay");
            }
        }

        // memory_stack_raii_unwind: the scope guard unwinds exactly once, when the armed object dies; release(), move construction and
        // move assignment hand the duty on
        void do_raii(unit& u)
        {
            S& s     = *u.obj;
            using UW = memory_stack_raii_unwind<S>;
            int variant = int(r.below(4));
            static const char* names[] = {"plain", "release", "move-construct", "move-assign"};
            op("raii unwinder scope (%s)", names[variant]);
            auto cap0      = s.capacity_left();
            auto id_floor  = u.sh.next_id;
            auto log_pos   = u.log.size();
            auto block_idx = u.used.size() - 1;
            auto nmarks    = u.marks.size();
            auto rel0      = u.src->releases();
            std::unique_ptr<UW> outer;
            if (variant == 3)
            {
                outer.reset(new UW(s));
                outer->release(); // holds nothing: assigning to it must not unwind anything
            }
            std::unique_ptr<UW> uw(new UW(s));
            if (!uw->will_unwind() || !(uw->get_marker() == s.top()))
                viol("C06", key("C06", "raii-marker"), "a fresh unwinder is not armed with the current top");
            int n = int(r.range(1, 6));
            for (int i = 0; i < n; ++i)
                do_alloc(u, false);
            bool expect_unwound = true;
            auto dying_check = [&] {
                for (auto& kv : u.sh.live)
                    if (kv.second.id >= id_floor)
                        u.sh.verify(kv.first, kv.second);
            };
            if (variant == 0)
            {
                dying_check();
                uw.reset();
            }
            else if (variant == 1)
            {
                uw->release();
                if (uw->will_unwind())
                    viol("C06", key("C06", "raii-release"), "will_unwind() is true after release()");
                uw.reset();
                expect_unwound = false;
            }
            else if (variant == 2)
            {
                std::unique_ptr<UW> uw2(new UW(std::move(*uw)));
                auto cap_mid = s.capacity_left();
                uw.reset(); // the moved-from guard dies: nothing may be unwound yet
                u.src->check();
                if (s.capacity_left() != cap_mid)
                    viol("C06", key("C06", "raii-moved-from-unwound"), "destroying a moved-from unwinder changed capacity_left() from %zu to %zu", cap_mid,
                         s.capacity_left());
                u.sh.sweep(); // allocations of the scope are still alive
                do_alloc(u, false);
                dying_check();
                uw2.reset();
            }
            else
            {
                *outer = std::move(*uw);
                auto cap_mid = s.capacity_left();
                uw.reset(); // moved-from
                u.src->check();
                if (s.capacity_left() != cap_mid)
                    viol("C06", key("C06", "raii-moved-from-unwound"), "destroying a moved-from unwinder changed capacity_left() from %zu to %zu", cap_mid,
                         s.capacity_left());
                u.sh.sweep(); // still alive: the duty went to `outer`
                if (!outer->will_unwind())
                    viol("C06", key("C06", "raii-move-assign"), "the assigned-to unwinder is not armed");
                do_alloc(u, false);
                dying_check();
                outer.reset();
            }
            u.src->check();
            frg.check("raii unwinder");
            if (expect_unwound)
            {
                u.sh.drop_if([&](char*, const shadow_ent& e) { return e.id >= id_floor; });
                if (s.capacity_left() != cap0)
                    viol("C06", key("C06", "capacity-after-unwind"), "capacity_left() after the unwinder's scope is %zu, it was %zu when the scope began",
                         s.capacity_left(), cap0);
                if (u.src->releases() != rel0)
                    viol("C06", key("C06", "unwind-released-upstream"), "the unwinder returned blocks to the block source");
                if (block_idx + 1 < u.used.size())
                {
                    u.cached += u.used.size() - 1 - block_idx;
                    for (auto i = block_idx + 1; i < u.used.size(); ++i)
                        u.block_end.erase(u.used[i]);
                    u.used.resize(block_idx + 1);
                    flag("unwind-across-blocks");
                }
                u.log.resize(log_pos);
                u.marks.erase(u.marks.begin() + long(nmarks), u.marks.end());
                flag("unwind");
            }
            u.sh.sweep(); // everything older is untouched
            count_ev("raii_scopes");
        }

        void do_shrink(unit& u)
        {
            S& s = *u.obj;
            op("shrink_to_fit");
            auto rel0 = u.src->releases();
            auto out0 = u.src->outstanding();
            auto cap0 = s.capacity_left();
            s.shrink_to_fit();
            u.src->check();
            if (std::size_t(u.src->releases() - rel0) != u.cached)
                viol("C05", key("C05", "shrink-count"), "shrink_to_fit returned %ld blocks, %zu were cached", u.src->releases() - rel0, u.cached);
            if (u.src->outstanding() != out0 - u.cached || u.src->outstanding() != u.used.size())
                viol("C05", key("C05", "shrink-outstanding"), "after shrink_to_fit %zu blocks are outstanding, %zu are in use", u.src->outstanding(),
                     u.used.size());
            if (s.capacity_left() != cap0)
                viol("C18", key("C18", "shrink-changed-capacity"), "shrink_to_fit changed capacity_left()");
            if (u.cached)
                flag("shrink");
            u.cached = 0;
            for (auto& m : u.marks)
                m.purged = true;
            u.sh.sweep();
            count_ev("shrinks");
            frg.check("shrink_to_fit");
        }

        void do_move_construct(unit& u)
        {
            also_scope moved("C12", "C01 C05 C15");
            op("move-construct");
            placed<S> n;
            auto      leaks0 = hl().leaks.size();
            n.obj            = ::new (n.storage()) S(std::move(*u.obj));
            u.obj.destroy();
            if (hl().leaks.size() != leaks0)
                viol("C15", key("C15", "moved-from-reported"), "destroying a moved-from stack called the leak handler");
            u.obj = std::move(n);
            u.src->check();
            u.sh.sweep();
            count_ev("move_construct");
            flag("move");
            frg.check("move-construct");
        }
        void do_move_assign(unit& u)
        {
            also_scope moved("C12", "C01 C05 C15");
            bool used = r.chance(60);
            op("move-assign onto %s target", used ? "used" : "fresh");
            auto t = fresh(placement::heap);
            if (used)
            {
                S&  ts = *t->obj;
                auto m = ts.top();
                int  k = int(r.range(1, 12));
                for (int i = 0; i < k; ++i)
                {
                    std::size_t size, align;
                    if (!gen_size(ts, size, align))
                        break;
                    try
                    {
                        void* p = member ? ts.allocate(size, align) : tr::allocate_node(ts, size, align);
                        if (!member)
                            tr::deallocate_node(ts, p, size, align);
                    }
                    catch (out_of_memory&)
                    {
                        break;
                    }
                }
                if (r.chance(50))
                    ts.unwind(m);
                t->src->check();
            }
            auto leaks0 = hl().leaks.size();
            *t->obj     = std::move(*u.obj);
            t->src->check();
            u.src->check();
            if (hl().leaks.size() != leaks0)
                viol("C15", key("C15", "move-assign-reported"), "move assignment onto a balanced stack called the leak handler");
            if (!t->src->balanced())
                viol("C12", key("C12", "move-assign-target-blocks-kept"),
                     "after move assignment the target's own blocks were not returned to its block source");
            u.obj.destroy();
            if (hl().leaks.size() != leaks0)
                viol("C15", key("C15", "moved-from-reported"), "destroying a moved-from stack called the leak handler");
            u.obj = std::move(t->obj);
            u.src->check();
            u.sh.sweep();
            count_ev("move_assign");
            flag("move");
            frg.check("move-assign");
        }
        void do_swap(unit& a, unit& b)
        {
            also_scope moved("C12", "C01 C05 C15");
            op("swap");
            using std::swap;
            swap(*a.obj, *b.obj);
            std::swap(a.src, b.src);
            std::swap(a.sh, b.sh);
            std::swap(a.net, b.net);
            std::swap(a.log, b.log);
            std::swap(a.marks, b.marks);
            std::swap(a.used, b.used);
            std::swap(a.cached, b.cached);
            std::swap(a.block_end, b.block_end);
            a.src->check();
            b.src->check();
            a.sh.sweep();
            b.sh.sweep();
            count_ev("swap");
            flag("move");
        }

        void destroy(std::unique_ptr<unit>& u)
        {
            u->sh.sweep();
            op("destroy net=%td", u->net);
            hl().leaks.clear();
            auto inv0 = hl().invalid;
            u->obj.destroy();
            if (hl().invalid != inv0)
                viol_nothrow("C16", key("C16", "false-invalid-pointer-report"),
                             "the invalid-pointer handler was called while a stack with a valid history was destroyed");
            u->src->check();
            frg.check("destruction");
#if FOONATHAN_MEMORY_DEBUG_LEAK_CHECK
            if (u->net == 0 && !hl().leaks.empty())
                viol("C15", key("C15", "reported-although-balanced"), "leak handler called with %td although everything was deallocated", hl().leaks[0]);
            if (u->net != 0 && (hl().leaks.size() != 1 || hl().leaks[0] != u->net))
                viol("C15", key("C15", "leak-amount"), "net %td bytes were not deallocated; leak handler called %zu times, first amount %td", u->net,
                     hl().leaks.size(), hl().leaks.empty() ? std::ptrdiff_t(0) : hl().leaks[0]);
            count_ev(u->net ? "leak_reports_checked" : "silent_destructions_checked");
            if (u->net)
                flag("leak");
#else
            if (!hl().leaks.empty())
                viol("C15", key("C15", "reported-although-disabled"), "leak handler called although leak checking is disabled");
#endif
            if (!u->src->balanced())
                viol("C05", key("C05", "not-balanced-at-destruction"), "after destruction upstream blocks are still outstanding");
            count_ev("destructions");
        }

        void run(const std::string& mode, int ops)
        {
            member = r.chance(30);
            // C18: a stack created with min_block_size(n) serves n bytes without growing
            std::size_t exact = 0;
            if (r.chance(25))
            {
                exact = r.range(1, 3000);
                bs0   = S::min_block_size(exact);
            }
            else
                bs0 = r.range(64, 4096);
            auto pl = placement(r.below(3));
            op("setup %s bs=%zu placement=%s%s", member ? "member" : "traits", bs0, placement_name(pl), exact ? " (min_block_size)" : "");
            units.push_back(fresh(pl));
            if (exact && F == 0 && std::is_same<Src, src_grow>::value)
            {
                auto& u    = *units[0];
                S&    s    = *u.obj;
                auto  acq0 = u.src->acquisitions();
                auto  cap0 = s.capacity_left();
                auto  nc0  = s.next_capacity();
                op("node 1x%zu/1 (exactly what min_block_size was asked for)", exact);
                void* p = member ? s.allocate(exact, 1) : tr::allocate_node(s, exact, 1);
                u.src->check();
                if (u.src->acquisitions() != acq0)
                    viol("C18", key("C18", "min-block-size-short"), "a stack created with min_block_size(%zu) had to grow for a request of %zu bytes", exact,
                         exact);
                note_alloc(u, p, exact, 1, cap0, nc0, acq0, false);
                if (!member)
                    u.net += std::ptrdiff_t(exact);
                flag("capacity-exact");
                count_ev("min_block_size_checks");
            }
            bool phased = mode == "phased";
            while (cx().step < ops)
            {
                auto& u = *units[r.below(units.size())];
                auto  x = r.below(1000);
                // phased: long runs of allocations between unwinds, so that several blocks are crossed
                std::size_t aw = phased ? 640 : 450;
                if (x < aw)
                    do_alloc(u, false);
                else if (x < aw + 50)
                    do_alloc(u, true);
                else if (x < aw + 110)
                    do_dealloc(u);
                else if (x < aw + 200)
                    do_mark(u);
                else if (x < aw + 290)
                    do_unwind(u);
                else if (x < aw + 302)
                    do_shrink(u);
                else if (x < aw + 310)
                    do_raii(u);
                else if (x < aw + 325)
                    do_move_construct(u);
                else if (x < aw + 338)
                    do_move_assign(u);
                else if (x < aw + 346 && units.size() >= 2)
                    do_swap(*units[0], *units[1]);
                else if (x < aw + 354 && units.size() < 3)
                {
                    op("second stack");
                    units.push_back(fresh(placement::heap));
                }
                else if (x < aw + 362 && member)
                    do_refused(u);
                else if (units.size() > 1 && x > 990)
                {
                    auto i = r.below(units.size());
                    destroy(units[i]);
                    units.erase(units.begin() + long(i));
                }
                if (cx().step % 32 == 0)
                    for (auto& v : units)
                    {
                        v->sh.sweep();
                        if (auto pr = v->src->probe())
                        {
                            pr->sweep_canaries();
                            pr->check();
                        }
                    }
            }
            while (!units.empty())
            {
                // sometimes unwind everything and purge first: then exactly one block may remain
                auto& u = *units.back();
                if (!u.marks.empty() && r.chance(40))
                {
                    while (u.marks.size() > 1)
                        u.marks.pop_back();
                    auto m = u.marks[0];
                    if (m.log_pos == 0)
                    {
                        op("unwind to the first marker, shrink_to_fit");
                        u.sh.sweep();
                        u.obj->unwind(m.m);
                        u.sh.drop_if([&](char*, const shadow_ent& e) { return e.id >= m.id_floor; });
                        u.obj->shrink_to_fit();
                        u.src->check();
                        if (u.src->outstanding() != 1)
                            viol("C05", key("C05", "shrink-outstanding"), "an empty stack after shrink_to_fit holds %zu blocks", u.src->outstanding());
                    }
                }
                destroy(units.back());
                units.pop_back();
            }
            for (auto& g : keep)
                if (!g->balanced())
                    viol("C05", key("C05", "not-balanced-at-destruction"), "a block source is left with outstanding blocks at the end of the case");
        }
    };

    template <class Src>
    void run_stack_kind(const args& a)
    {
        std::string kind = std::string("stack/") + Src::name;
        if (a.kind != "all" && a.kind != kind)
            return;
        for (long c = a.from; c < a.to; ++c)
            run_case(kind, c, [&] {
                auto              r = case_rng(a.seed, a.group, kind, c);
                stack_engine<Src> e(r, kind);
                e.run(a.group, a.ops);
            });
    }

    //=== iteration_allocator ===//
    template <std::size_t N, class Src>
    struct iter_engine
    {
        using A   = iteration_allocator<N, typename Src::arg>;
        using tr  = allocator_traits<A>;
        using ctr = composable_allocator_traits<A>;

        rng&                 r;
        std::string          kind;
        std::shared_ptr<Src> src = std::make_shared<Src>();
        std::vector<std::shared_ptr<Src>> keep;
        placed<A>            obj;
        shadow               sh;
        long                 iter = 0; // number of next_iteration() calls so far
        std::size_t          full[N]; // capacity of region i when it is empty
        bool                 member;
        false_report_guard   frg;

        iter_engine(rng& rr, const std::string& k) : r(rr), kind(k) {}
        std::string key(const char* prop, const char* what)
        {
            return std::string(prop) + "/" + kind + "/" + what;
        }

        void do_alloc(bool try_)
        {
            A&   a   = *obj;
            auto cap = a.capacity_left();
            std::size_t size, align;
            switch (r.below(4))
            {
            case 0:
                size = r.range(1, 16);
                break;
            case 1:
                size = r.range(1, std::max<std::size_t>(cap / 4, 1));
                break;
            case 2: // exactly what is left
                size = cap > 2 * F ? cap - 2 * F : 1;
                break;
            default:
                size = r.range(1, std::max<std::size_t>(cap, 1) + 8); // may exceed: out_of_fixed_memory / null expected
                break;
            }
            align = std::size_t(1) << (r.chance(70) ? r.below(5) : r.below(9));
            if (size == cap - 2 * F)
                align = 1;
            op("%salloc %zu/%zu", try_ ? "try_" : "", size, align);
            auto  oom0 = hl().oom;
            auto  att0 = src->attempts();
            void* p    = nullptr;
            try
            {
                if (try_)
                    p = member ? a.try_allocate(size, align) : ctr::try_allocate_node(a, size, align);
                else
                    p = member ? a.allocate(size, align) : tr::allocate_node(a, size, align);
            }
            catch (out_of_memory&)
            {
                if (try_)
                    viol("C03", key("C03", "try-threw"), "try_allocate threw");
                if (hl().oom == oom0)
                    viol("C03", key("C03", "oom-handler-not-called"), "out_of_fixed_memory thrown without calling the handler");
                if (size + 2 * F + align - 1 <= cap)
                    viol("C07", key("C07", "refused-although-capacity"), "allocate(%zu, %zu) threw although capacity_left() was %zu", size, align, cap);
                count("out_of_memory_thrown");
                flag("exhausted");
                if (a.capacity_left() != cap)
                    viol("C18", key("C18", "failed-alloc-changed-capacity"), "capacity_left changed across a failed allocation");
                return;
            }
            src->check();
            if (src->attempts() != att0)
                viol("C05", key("C05", "iteration-acquired"), "an iteration_allocator asked its block source for a second block");
            if (!p)
            {
                if (!try_)
                    viol("C03", key("C03", "returned-null"), "allocate returned null");
                if (size + 2 * F + align - 1 <= cap)
                    viol("C07", key("C07", "refused-although-capacity"), "try_allocate(%zu, %zu) returned null although capacity_left() was %zu", size,
                         align, cap);
                count("try_null");
                return;
            }
            count(try_ ? "try_alloc" : "alloc");
            sh.add([&](const char* q, std::size_t n) { return src->owns(q, n); }, p, false, 1, size, align, int(iter));
            auto cap1 = a.capacity_left();
            if (cap < cap1 || cap - cap1 < size || cap - cap1 > size + 2 * F + align - 1)
                viol("C18", key("C18", "alloc-delta"), "capacity_left went %zu -> %zu for %zu bytes aligned %zu", cap, cap1, size, align);
            if (sh.live.size() > 1)
                flag("multi-live");
            if (align > alignof(std::max_align_t))
                flag("overaligned");
            frg.check("allocate");
        }

        void do_next()
        {
            A& a = *obj;
            op("next_iteration");
            // what was allocated N iterations ago in the region that becomes current dies now; it must be intact until now
            long dying = iter + 1 - long(N);
            for (auto& kv : sh.live)
                if (kv.second.tag == dying)
                    sh.verify(kv.first, kv.second);
            auto cur0 = a.cur_iteration();
            a.next_iteration();
            ++iter;
            src->check();
            sh.drop_if([&](char*, const shadow_ent& e) { return e.tag <= dying; });
            sh.sweep(); // all younger allocations are untouched by the switch
            auto cur = a.cur_iteration();
            if (cur != (cur0 + 1) % N)
                viol("C07", key("C07", "iteration-index"), "cur_iteration() went %zu -> %zu", cur0, cur);
            if (a.capacity_left() != full[cur])
                viol("C07", key("C07", "capacity-after-switch"), "after switching to iteration %zu capacity_left() is %zu, the empty region had %zu", cur,
                     a.capacity_left(), full[cur]);
            if (iter >= long(N))
                flag("wrap");
            count("next_iteration");
            frg.check("next_iteration");
        }

        // c = move(a) keeps the memory; then a (moved-from) is assigned a fresh allocator: nothing of c's may be touched
        void do_reuse_moved_from()
        {
            also_scope moved("C12", "C01 C05");
            op("move-construct, then assign a fresh allocator onto the moved-from object");
            placed<A> c;
            c.obj = ::new (c.storage()) A(std::move(*obj));
            auto      bsrc = std::make_shared<Src>();
            keep.push_back(bsrc);
            {
                placed<A> b;
                b.obj = bsrc->template construct<A>(b.storage(), bsrc->fix_block_size(r.range(64, 1024)));
                *obj  = std::move(*b.obj); // obj is moved-from: it owns nothing that could be released
                src->check();
                bsrc->check();
            }
            // the moved-to allocator goes on as the allocator under test; the re-filled old object is destroyed
            sh.sweep();
            obj.destroy();
            bsrc->check();
            if (!bsrc->balanced())
                viol("C12", key("C12", "assigned-moved-from-leaks"), "the allocator assigned onto a moved-from object did not return its block when destroyed");
            obj = std::move(c);
            src->check();
            sh.sweep();
            flag("move");
            count("moves");
            frg.check("reuse of a moved-from allocator");
        }

        void do_move(bool assign)
        {
            also_scope moved("C12", "C01 C05");
            op(assign ? "move-assign" : "move-construct");
            if (!assign)
            {
                placed<A> n;
                n.obj = ::new (n.storage()) A(std::move(*obj));
                obj.destroy();
                obj = std::move(n);
            }
            else
            {
                auto      tsrc = std::make_shared<Src>();
                keep.push_back(tsrc);
                placed<A> t;
                t.obj = tsrc->template construct<A>(t.storage(), tsrc->fix_block_size(r.range(64, 2048)));
                if (r.chance(50))
                    try
                    {
                        t.obj->allocate(8, 8);
                    }
                    catch (out_of_memory&)
                    {
                    }
                *t.obj = std::move(*obj);
                tsrc->check();
                src->check();
                if (!tsrc->balanced())
                    viol("C12", key("C12", "move-assign-target-blocks-kept"),
                         "after move assignment the target's own block was not returned to its block source");
                obj.destroy();
                obj = std::move(t);
            }
            src->check();
            sh.sweep();
            for (std::size_t i = 0; i < N; ++i)
                if (obj->capacity_left(i) > full[i])
                    viol("C12", key("C12", "capacity-after-move"), "region %zu has more capacity after a move than when empty", i);
            flag("move");
            count("moves");
            frg.check("move");
        }

        void run(int ops)
        {
            member = r.chance(40);
            // overlapping or overwritten allocations and capacity that grows on allocation are, for this allocator, violations of the
            // region discipline C07 states as well
            cx().also     = "C07";
            cx().also_for = "C01 C18";
            std::size_t bs;
            switch (r.below(4))
            {
            case 0:
                bs = N * r.range(8, 300);
                break;
            case 1:
                bs = N * r.range(8, 300) + r.range(1, N); // not divisible by N (for N > 1)
                break;
            case 2:
            {
                static const std::size_t primes[] = {67, 101, 257, 509, 1021, 1025, 2053, 4099};
                bs = primes[r.below(8)];
                break;
            }
            default:
                bs = r.range(16 * N, 5000);
                break;
            }
            bs      = src->fix_block_size(bs);
            auto pl = placement(r.below(3));
            op("setup %s N=%zu bs=%zu placement=%s", member ? "member" : "traits", N, bs, placement_name(pl));
            keep.push_back(src);
            void* mem = place_storage(obj, src->probe(), pl);
            obj.obj   = src->template construct<A>(mem, bs);
            src->check();
            if (bs % N)
                flag("indivisible");
            A&          a   = *obj;
            std::size_t sum = 0;
            for (std::size_t i = 0; i < N; ++i)
            {
                full[i] = a.capacity_left(i);
                sum += full[i];
            }
            if (sum > bs)
                viol("C07", key("C07", "regions-exceed-block"), "the %zu regions have %zu bytes in total, the block has %zu", N, sum, bs);
            while (cx().step < ops)
            {
                auto x = r.below(100);
                if (x < 55)
                    do_alloc(false);
                else if (x < 70)
                    do_alloc(true);
                else if (x < 94)
                    do_next();
                else if (x < 96)
                    do_move(false);
                else if (x < 98)
                    do_move(true);
                else
                    do_reuse_moved_from();
                if (cx().step % 16 == 0)
                {
                    sh.sweep();
                    if (auto pr = src->probe())
                    {
                        pr->sweep_canaries();
                        pr->check();
                    }
                }
            }
            sh.sweep();
            op("destroy");
            obj.destroy();
            src->check();
            for (auto& g : keep)
                if (!g->balanced())
                    viol("C05", key("C05", "not-balanced-at-destruction"), "after destruction the iteration_allocator's block is still outstanding");
        }
    };

    template <std::size_t N, class Src>
    void run_iter_kind(const args& a)
    {
        std::string kind = fmt("iter<%zu>/", N) + Src::name;
        if (a.kind != "all" && a.kind != kind)
            return;
        for (long c = a.from; c < a.to; ++c)
            run_case(kind, c, [&] {
                auto                r = case_rng(a.seed, a.group, kind, c);
                iter_engine<N, Src> e(r, kind);
                e.run(a.ops);
            });
    }
    template <std::size_t N>
    void run_iter_sources(const args& a)
    {
        run_iter_kind<N, src_grow>(a); // a RawAllocator argument: wrapped in fixed_block_allocator by the library
        run_iter_kind<N, src_blk>(a);
        run_iter_kind<N, src_static>(a);
        run_iter_kind<N, src_virtual>(a);
    }
} // namespace vf_stack
