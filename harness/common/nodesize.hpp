// C10 node sizes: what a container really asks its allocator for, compared with the library's X_node_size<T> constants,
// and the container running on a real memory_pool created with the constant (see h_stl.cpp).
#pragma once
#include <deque>
#include <forward_list>
#include <list>
#include <map>
#include <memory>
#include <set>
#include <unordered_map>
#include <unordered_set>

#include <foonathan/memory/container.hpp>
#include <foonathan/memory/heap_allocator.hpp>
#include <foonathan/memory/memory_pool.hpp>
#include <foonathan/memory/smart_ptr.hpp>
#include <foonathan/memory/std_allocator.hpp>

#include "core.hpp"

namespace vf_ns
{
    using namespace vf;
    using namespace foonathan::memory;

    template <std::size_t S, std::size_t A>
    struct alignas(A) elem
    {
        unsigned char v[S];
        elem(long x = 0)
        {
            for (std::size_t i = 0; i < S; ++i)
                v[i] = (unsigned char)(x >> (8 * (i % 4)));
        }
        bool operator<(const elem& o) const
        {
            return std::memcmp(v, o.v, S) < 0;
        }
        bool operator==(const elem& o) const
        {
            return std::memcmp(v, o.v, S) == 0;
        }
    };
    struct elem_hash
    {
        template <std::size_t S, std::size_t A>
        std::size_t operator()(const elem<S, A>& e) const
        {
            std::size_t h = 1469598103934665603ull;
            for (std::size_t i = 0; i < S && i < 4; ++i)
                h = (h ^ e.v[i]) * 1099511628211ull;
            return h;
        }
    };

    struct rec_state
    {
        std::size_t max_node = 0, max_node_align = 0, node_calls = 0, array_calls = 0;
    };
    struct rec_alloc
    {
        using is_stateful = std::true_type;
        rec_state* s;
        void*      allocate_node(std::size_t size, std::size_t al)
        {
            ++s->node_calls;
            s->max_node       = std::max(s->max_node, size);
            s->max_node_align = std::max(s->max_node_align, al);
            return std::aligned_alloc(16, (size + 15) / 16 * 16);
        }
        void deallocate_node(void* p, std::size_t, std::size_t) noexcept
        {
            std::free(p);
        }
        void* allocate_array(std::size_t c, std::size_t size, std::size_t)
        {
            ++s->array_calls;
            return std::aligned_alloc(16, (c * size + 15) / 16 * 16);
        }
        void deallocate_array(void* p, std::size_t, std::size_t, std::size_t) noexcept
        {
            std::free(p);
        }
    };
    // nodes from a real pool created with the constant under test, arrays (bucket tables) from the heap
    struct pool_nodes
    {
        using is_stateful = std::true_type;
        memory_pool<node_pool>* pool;
        long*                   served;
        void* allocate_node(std::size_t size, std::size_t al)
        {
            ++*served;
            return allocator_traits<memory_pool<node_pool>>::allocate_node(*pool, size, al);
        }
        void deallocate_node(void* p, std::size_t size, std::size_t al) noexcept
        {
            allocator_traits<memory_pool<node_pool>>::deallocate_node(*pool, p, size, al);
        }
        void* allocate_array(std::size_t c, std::size_t size, std::size_t)
        {
            return std::aligned_alloc(16, (c * size + 15) / 16 * 16);
        }
        void deallocate_array(void* p, std::size_t, std::size_t, std::size_t) noexcept
        {
            std::free(p);
        }
    };

    // Build(alloc) constructs the container over a RawAllocator and exercises it
    template <class Build>
    void one(const std::string& kind, const char* tname, std::size_t constant, Build build)
    {
        rec_state rs;
        {
            rec_alloc ra{&rs};
            build(ra, 12);
        }
        count("node_size_measurements");
        if (rs.node_calls == 0)
            return; // this container makes no single-node requests for this type
        if (rs.max_node > constant)
            viol("C10", "C10/" + kind + "/node-size-too-small", "%s: the container asks for nodes of %zu bytes, %s_node_size is %zu", tname, rs.max_node,
                 kind.c_str(), constant);
        // the container on a real pool created with the constant
        memory_pool<node_pool> pool(constant, memory_pool<node_pool>::min_block_size(constant, 64));
        long                   served = 0;
        try
        {
            pool_nodes pn{&pool, &served};
            build(pn, 100);
        }
        catch (bad_allocation_size& e)
        {
            viol("C10", "C10/" + kind + "/pool-with-node-size-refuses", "%s: a memory_pool created with %s_node_size = %zu refuses the container's request: %s "
                 "(largest node request %zu bytes aligned %zu, the pool's nodes are %zu bytes aligned %zu)",
                 tname, kind.c_str(), constant, e.what(), rs.max_node, rs.max_node_align, pool.node_size(),
                 allocator_traits<memory_pool<node_pool>>::max_alignment(pool));
        }
        count("pool_nodes_served", served);
    }

    template <class C>
    void churn_seq(C& c, int n)
    {
        for (int i = 0; i < n; ++i)
            c.push_front(typename C::value_type(i));
        for (int i = 0; i < n / 2; ++i)
            c.pop_front();
        for (int i = 0; i < n / 2; ++i)
            c.push_front(typename C::value_type(i + 1000));
    }
    template <class C>
    void churn_set(C& c, int n)
    {
        for (int i = 0; i < n; ++i)
            c.insert(typename C::value_type(i * 7));
        for (int i = 0; i < n / 2 && !c.empty(); ++i)
            c.erase(c.begin());
        for (int i = 0; i < n / 2; ++i)
            c.insert(typename C::value_type(i * 13 + 1));
    }
    template <class C>
    void churn_map(C& c, int n)
    {
        using M = typename C::mapped_type;
        for (int i = 0; i < n; ++i)
            c.insert({long(i * 7), M(i)});
        for (int i = 0; i < n / 2 && !c.empty(); ++i)
            c.erase(c.begin());
        for (int i = 0; i < n / 2; ++i)
            c.insert({long(i * 13 + 1), M(i)});
    }

    template <class T>
    void type_case(const args& a, long index, const char* tname)
    {
        if (index < a.from || index >= a.to)
            return;
        auto want = [&](const char* k) { return a.kind == "all" || a.kind == k; };
        using P   = std::pair<const long, T>;
        if (want("forward_list"))
            run_case("forward_list", index, [&] {
                op("forward_list<%s>", tname);
                one("forward_list", tname, forward_list_node_size<T>::value, [](auto& al, int n) {
                    std::forward_list<T, std_allocator<T, std::decay_t<decltype(al)>>> c(al);
                    churn_seq(c, n);
                });
                flag("nodesize");
            });
        if (want("list"))
            run_case("list", index, [&] {
                op("list<%s>", tname);
                one("list", tname, list_node_size<T>::value, [](auto& al, int n) {
                    std::list<T, std_allocator<T, std::decay_t<decltype(al)>>> c(al);
                    churn_seq(c, n);
                });
                flag("nodesize");
            });
        if (want("set"))
            run_case("set", index, [&] {
                op("set<%s>", tname);
                one("set", tname, set_node_size<T>::value, [](auto& al, int n) {
                    std::set<T, std::less<T>, std_allocator<T, std::decay_t<decltype(al)>>> c(al);
                    churn_set(c, n);
                });
                flag("nodesize");
            });
        if (want("multiset"))
            run_case("multiset", index, [&] {
                op("multiset<%s>", tname);
                one("multiset", tname, multiset_node_size<T>::value, [](auto& al, int n) {
                    std::multiset<T, std::less<T>, std_allocator<T, std::decay_t<decltype(al)>>> c(al);
                    churn_set(c, n);
                });
                flag("nodesize");
            });
        if (want("unordered_set"))
            run_case("unordered_set", index, [&] {
                op("unordered_set<%s>", tname);
                one("unordered_set", tname, unordered_set_node_size<T>::value, [](auto& al, int n) {
                    std::unordered_set<T, elem_hash, std::equal_to<T>, std_allocator<T, std::decay_t<decltype(al)>>> c(al);
                    churn_set(c, n);
                });
                flag("nodesize");
            });
        if (want("unordered_multiset"))
            run_case("unordered_multiset", index, [&] {
                op("unordered_multiset<%s>", tname);
                one("unordered_multiset", tname, unordered_multiset_node_size<T>::value, [](auto& al, int n) {
                    std::unordered_multiset<T, elem_hash, std::equal_to<T>, std_allocator<T, std::decay_t<decltype(al)>>> c(al);
                    churn_set(c, n);
                });
                flag("nodesize");
            });
        if (want("map"))
            run_case("map", index, [&] {
                op("map<long, %s>", tname);
                one("map", tname, map_node_size<P>::value, [](auto& al, int n) {
                    std::map<long, T, std::less<long>, std_allocator<P, std::decay_t<decltype(al)>>> c(al);
                    churn_map(c, n);
                });
                flag("nodesize");
            });
        if (want("multimap"))
            run_case("multimap", index, [&] {
                op("multimap<long, %s>", tname);
                one("multimap", tname, multimap_node_size<P>::value, [](auto& al, int n) {
                    std::multimap<long, T, std::less<long>, std_allocator<P, std::decay_t<decltype(al)>>> c(al);
                    churn_map(c, n);
                });
                flag("nodesize");
            });
        if (want("unordered_map"))
            run_case("unordered_map", index, [&] {
                op("unordered_map<long, %s>", tname);
                one("unordered_map", tname, unordered_map_node_size<P>::value, [](auto& al, int n) {
                    std::unordered_map<long, T, std::hash<long>, std::equal_to<long>, std_allocator<P, std::decay_t<decltype(al)>>> c(al);
                    churn_map(c, n);
                });
                flag("nodesize");
            });
        if (want("unordered_multimap"))
            run_case("unordered_multimap", index, [&] {
                op("unordered_multimap<long, %s>", tname);
                one("unordered_multimap", tname, unordered_multimap_node_size<P>::value, [](auto& al, int n) {
                    std::unordered_multimap<long, T, std::hash<long>, std::equal_to<long>, std_allocator<P, std::decay_t<decltype(al)>>> c(al);
                    churn_map(c, n);
                });
                flag("nodesize");
            });
        if (want("shared_ptr"))
            run_case("shared_ptr", index, [&] {
                op("allocate_shared<%s>", tname);
                one("shared_ptr", tname, shared_ptr_stateful_node_size<T>::value, [](auto& al, int n) {
                    std::vector<std::shared_ptr<T>> v;
                    for (int i = 0; i < n / 4 + 1; ++i)
                        v.push_back(allocate_shared<T>(al, long(i)));
                });
                flag("nodesize");
            });
    }
} // namespace vf_ns
