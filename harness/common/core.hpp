// Shared pieces of the history engines: recording handlers, block source policies, placement of the
// allocator object relative to its memory.
#pragma once
#include <cstddef>
#include <memory>
#include <vector>

#include <foonathan/memory/debugging.hpp>
#include <foonathan/memory/error.hpp>
#include <foonathan/memory/memory_arena.hpp>
#include <foonathan/memory/static_allocator.hpp>
#include <foonathan/memory/virtual_memory.hpp>

#include "prng.hpp"
#include "probes.hpp"
#include "report.hpp"
#include "shadow.hpp"

namespace vf
{
    // ---- recording handlers (the library's defaults abort) ----
    struct handler_log
    {
        std::vector<std::ptrdiff_t> leaks;
        std::vector<std::string>    leak_names;
        long invalid = 0, overflow = 0, oom = 0, bad_size = 0;
    };
    inline handler_log& hl()
    {
        static handler_log h;
        return h;
    }
    inline void install_recording_handlers()
    {
        fm::set_leak_handler([](const fm::allocator_info& i, std::ptrdiff_t a) {
            hl().leaks.push_back(a);
            hl().leak_names.push_back(i.name ? i.name : "");
        });
        fm::set_invalid_pointer_handler([](const fm::allocator_info&, const void*) { ++hl().invalid; });
        fm::set_buffer_overflow_handler([](const void*, std::size_t, const void*) { ++hl().overflow; });
        fm::out_of_memory::set_handler([](const fm::allocator_info&, std::size_t) { ++hl().oom; });
        fm::bad_allocation_size::set_handler([](const fm::allocator_info&, std::size_t, std::size_t) { ++hl().bad_size; });
    }
    // valid histories must never trigger a report (C16 "valid releases never are")
    struct false_report_guard
    {
        long inv0, ovf0;
        false_report_guard() : inv0(hl().invalid), ovf0(hl().overflow) {}
        void check(const char* after)
        {
            if (hl().invalid != inv0)
            {
                inv0 = hl().invalid;
                viol("C16", "C16/" + cx().kind + "/false-invalid-pointer-report",
                     "the invalid-pointer handler was called during a valid history (after %s)", after);
            }
            if (hl().overflow != ovf0)
            {
                ovf0 = hl().overflow;
                viol("C17", "C17/" + cx().kind + "/false-overflow-report",
                     "the buffer-overflow handler was called although the harness only wrote in bounds (after %s)", after);
            }
        }
    };

    // ---- block source policies: how an arena-based allocator is given its upstream ----
    // Each policy: type arg<> to pass as BlockOrRawAllocator, construct<A>(where, front args...), owns, check, balanced,
    // acquisitions(), growing (can a second block be obtained), probe() (failpoints; may be null)

    struct src_grow // growing_block_allocator<probe_raw> via make_block_allocator
    {
        static constexpr const char* name    = "grow";
        static constexpr bool        growing = true;
        static constexpr std::size_t max_block = std::size_t(1) << 30;
        using arg                            = probe_raw;
        probe_handle h                       = make_probe("raw", true);
        template <class A, class... X>
        A* construct(void* where, X&&... x)
        {
            return ::new (where) A(std::forward<X>(x)..., probe_raw(h));
        }
        bool owns(const char* p, std::size_t n) const
        {
            return h->owns(p, n);
        }
        // start of the upstream block that contains p (nullptr if none)
        const char* block_of(const char* p) const
        {
            auto it = h->live.upper_bound(const_cast<char*>(p));
            if (it == h->live.begin())
                return nullptr;
            --it;
            return p < it->first + it->second.bytes ? it->first : nullptr;
        }
        const char* newest_block() const
        {
            return h->order.empty() ? nullptr : h->order.back();
        }
        long releases() const
        {
            return h->releases;
        }
        std::size_t outstanding() const
        {
            return h->live.size();
        }
        void check()
        {
            h->check();
        }
        bool balanced() const
        {
            return h->balanced();
        }
        long acquisitions() const
        {
            return h->served;
        }
        long attempts() const
        {
            return h->attempts;
        }
        probe_state* probe()
        {
            return h.get();
        }
        std::size_t fix_block_size(std::size_t bs) const
        {
            return bs;
        }
    };
    struct src_fixed : src_grow // fixed_block_allocator<probe_raw>
    {
        static constexpr const char* name    = "fixed";
        static constexpr bool        growing = false;
        using arg                            = fm::fixed_block_allocator<probe_raw>;
    };
    struct src_blk // a BlockAllocator probe (doubling)
    {
        static constexpr const char* name    = "blk";
        static constexpr bool        growing = true;
        static constexpr std::size_t max_block = std::size_t(1) << 30;
        using arg                            = probe_block;
        probe_handle h                       = make_probe("blk", true);
        template <class A, class... X>
        A* construct(void* where, X&&... x)
        {
            return ::new (where) A(std::forward<X>(x)..., h, true);
        }
        bool owns(const char* p, std::size_t n) const
        {
            return h->owns(p, n);
        }
        // start of the upstream block that contains p (nullptr if none)
        const char* block_of(const char* p) const
        {
            auto it = h->live.upper_bound(const_cast<char*>(p));
            if (it == h->live.begin())
                return nullptr;
            --it;
            return p < it->first + it->second.bytes ? it->first : nullptr;
        }
        const char* newest_block() const
        {
            return h->order.empty() ? nullptr : h->order.back();
        }
        long releases() const
        {
            return h->releases;
        }
        std::size_t outstanding() const
        {
            return h->live.size();
        }
        void check()
        {
            h->check();
        }
        bool balanced() const
        {
            return h->balanced();
        }
        long acquisitions() const
        {
            return h->served;
        }
        long attempts() const
        {
            return h->attempts;
        }
        probe_state* probe()
        {
            return h.get();
        }
        std::size_t fix_block_size(std::size_t bs) const
        {
            return bs;
        }
    };
    struct src_static // static_block_allocator over static storage, observed through probe_wrap
    {
        static constexpr const char* name    = "static";
        static constexpr bool        growing = true; // until the storage is exhausted
        using arg                            = probe_wrap<fm::static_block_allocator>;
        static constexpr std::size_t storage_size = 256 * 1024;
        static constexpr std::size_t max_block    = 64 * 1024; // so that the storage holds at least four blocks
        std::unique_ptr<fm::static_allocator_storage<storage_size>> storage{new fm::static_allocator_storage<storage_size>};
        std::shared_ptr<wrap_state>  w = std::make_shared<wrap_state>();
        template <class A, class... X>
        A* construct(void* where, X&&... x)
        {
            return ::new (where) A(std::forward<X>(x)..., w, *storage);
        }
        bool owns(const char* p, std::size_t n) const
        {
            for (auto& o : w->out)
                if (p >= (char*)o.memory && p + n <= (char*)o.memory + o.size)
                    return true;
            return false;
        }
        const char* block_of(const char* p) const
        {
            for (auto& o : w->out)
                if (p >= (char*)o.memory && p < (char*)o.memory + o.size)
                    return (const char*)o.memory;
            return nullptr;
        }
        const char* newest_block() const
        {
            return w->out.empty() ? nullptr : (const char*)w->out.back().memory;
        }
        long releases() const
        {
            return w->released;
        }
        std::size_t outstanding() const
        {
            return w->out.size();
        }
        void check()
        {
            w->check();
        }
        bool balanced() const
        {
            return w->out.empty();
        }
        long acquisitions() const
        {
            return w->acquired;
        }
        long attempts() const
        {
            return w->acquired;
        }
        probe_state* probe()
        {
            return nullptr;
        }
        std::size_t fix_block_size(std::size_t bs) const
        {
            // documented requirement: the storage size is a multiple of the block size
            std::size_t p = 64;
            while (p < bs)
                p *= 2;
            return p;
        }
    };
    struct src_virtual // virtual_block_allocator, observed through probe_wrap
    {
        static constexpr const char* name    = "virtual";
        static constexpr bool        growing = true; // until the reserved pages are used up
        static constexpr std::size_t max_block = std::size_t(1) << 30;
        using arg                            = probe_wrap<fm::virtual_block_allocator>;
        std::shared_ptr<wrap_state>  w = std::make_shared<wrap_state>();
        std::size_t                  no_blocks = 6;
        template <class A, class... X>
        A* construct(void* where, X&&... x)
        {
            return ::new (where) A(std::forward<X>(x)..., w, no_blocks);
        }
        bool owns(const char* p, std::size_t n) const
        {
            for (auto& o : w->out)
                if (p >= (char*)o.memory && p + n <= (char*)o.memory + o.size)
                    return true;
            return false;
        }
        const char* block_of(const char* p) const
        {
            for (auto& o : w->out)
                if (p >= (char*)o.memory && p < (char*)o.memory + o.size)
                    return (const char*)o.memory;
            return nullptr;
        }
        const char* newest_block() const
        {
            return w->out.empty() ? nullptr : (const char*)w->out.back().memory;
        }
        long releases() const
        {
            return w->released;
        }
        std::size_t outstanding() const
        {
            return w->out.size();
        }
        void check()
        {
            w->check();
        }
        bool balanced() const
        {
            return w->out.empty();
        }
        long acquisitions() const
        {
            return w->acquired;
        }
        long attempts() const
        {
            return w->acquired;
        }
        probe_state* probe()
        {
            return nullptr;
        }
        std::size_t fix_block_size(std::size_t bs) const
        {
            auto pg = fm::virtual_memory_page_size;
            return (bs + pg - 1) / pg * pg;
        }
    };

    // ---- placement: where the allocator object lives relative to its memory ----
    // heap: wherever operator new puts it; below/above: inside the probe's region, before / after all blocks
    enum class placement
    {
        heap,
        below,
        above
    };
    inline const char* placement_name(placement p)
    {
        return p == placement::heap ? "heap" : p == placement::below ? "below" : "above";
    }

    template <class A>
    struct placed
    {
        A*    obj = nullptr;
        void* mem = nullptr;
        bool  own_mem = false;
        placed() = default;
        placed(const placed&) = delete;
        placed& operator=(const placed&) = delete;
        placed(placed&& o) noexcept : obj(o.obj), mem(o.mem), own_mem(o.own_mem)
        {
            o.obj = nullptr;
            o.mem = nullptr;
        }
        placed& operator=(placed&& o) noexcept
        {
            destroy();
            obj     = o.obj;
            mem     = o.mem;
            own_mem = o.own_mem;
            o.obj   = nullptr;
            o.mem   = nullptr;
            return *this;
        }
        void* storage()
        {
            if (!mem)
            {
                mem     = ::operator new(sizeof(A) + alignof(std::max_align_t));
                own_mem = true;
            }
            return mem;
        }
        void destroy()
        {
            if (obj)
                obj->~A();
            obj = nullptr;
            if (mem && own_mem)
                ::operator delete(mem);
            mem = nullptr;
        }
        ~placed()
        {
            destroy();
        }
        A& operator*()
        {
            return *obj;
        }
        A* operator->()
        {
            return obj;
        }
    };

    // sets up the probe region (if any) and returns storage for an object of type A according to `pl`
    template <class A>
    void* place_storage(placed<A>& slot, probe_state* probe, placement pl, std::size_t region_bytes = std::size_t(1) << 20)
    {
        if (pl == placement::heap || !probe)
            return slot.storage();
        if (!probe->region)
            probe->use_region(region_bytes);
        std::size_t need = (sizeof(A) + 63) / 64 * 64 + 64;
        char*       where;
        if (pl == placement::below)
        {
            auto a = (reinterpret_cast<std::uintptr_t>(probe->region_cur) + 63) / 64 * 64;
            where  = reinterpret_cast<char*>(a);
            probe->region_cur = where + need;
        }
        else
        {
            auto a = (reinterpret_cast<std::uintptr_t>(probe->region_end) - need) / 64 * 64;
            where  = reinterpret_cast<char*>(a);
            probe->region_end = where - 64;
        }
        VF_UNPOISON(where, sizeof(A));
        slot.mem     = where;
        slot.own_mem = false;
        return where;
    }

    // which cases count as non-trivial for the property a history harness is run for (flags are set by the engines)
    inline bool history_rule(const std::set<std::string>& f)
    {
        auto& p   = cx().prop;
        auto  has = [&](const char* x) { return f.count(x) != 0; };
        if (p == "C04")
            return has("release") && (has("uneven-array") || has("array-delta") || has("cycle") || has("drain"));
        if (p == "C05")
            return has("grow") || has("move") || has("cache-reuse");
        if (p == "C06")
            return has("unwind") && (has("replay") || has("unwind-across-blocks"));
        if (p == "C07")
            return has("wrap") && has("multi-live");
        if (p == "C12")
            return has("move");
        if (p == "C15")
            return has("release") && (has("leak") || has("move"));
        if (p == "C18")
            return (has("grow") && has("release")) || has("capacity-exact");
        if (p == "C03")
            return has("exhausted") || has("grow");
        if (p == "C02")
            return has("multi-live") && (has("overaligned") || has("grow") || has("release"));
        return has("multi-live") && (has("release") || has("unwind") || has("wrap"));
    }
} // namespace vf
