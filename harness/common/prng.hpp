// splitmix64: the same seed gives the same histories with every compiler
#pragma once
#include <cstddef>
#include <cstdint>
#include <string>

namespace vf
{
    struct rng
    {
        std::uint64_t s;
        explicit rng(std::uint64_t seed = 1) : s(seed) {}
        std::uint64_t next()
        {
            s += 0x9e3779b97f4a7c15ull;
            auto z = s;
            z      = (z ^ (z >> 30)) * 0xbf58476d1ce4e5b9ull;
            z      = (z ^ (z >> 27)) * 0x94d049bb133111ebull;
            return z ^ (z >> 31);
        }
        std::size_t below(std::size_t n)
        {
            return n ? std::size_t(next() % n) : 0;
        }
        // inclusive range
        std::size_t range(std::size_t a, std::size_t b)
        {
            return a + below(b - a + 1);
        }
        bool chance(unsigned percent)
        {
            return below(100) < percent;
        }
        template <class T, std::size_t N>
        T pick(const T (&arr)[N])
        {
            return arr[below(N)];
        }
    };

    // stream for one case: depends on the seed and the case's names only
    inline rng case_rng(std::uint64_t seed, const std::string& group, const std::string& kind, long case_no)
    {
        std::uint64_t h = 0xcbf29ce484222325ull ^ (seed * 0x9e3779b97f4a7c15ull);
        for (unsigned char c : group + "|" + kind)
        {
            h ^= c;
            h *= 0x100000001b3ull;
        }
        h ^= std::uint64_t(case_no) * 0xd6e8feb86659fd93ull;
        rng r(h);
        r.next();
        return r;
    }
} // namespace vf
