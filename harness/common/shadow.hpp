// Shadow heap: the set of live allocations the harness holds, with a unique byte pattern per allocation.
// Oracle for C01 (disjoint, inside owned memory, never written while live), C02 (non-null, aligned,
// all bytes usable) and C17(b) (fresh memory carries the new-memory pattern when fill is on).
#pragma once
#include <cstdint>
#include <cstring>
#include <functional>
#include <map>

#include <foonathan/memory/config.hpp>
#include <foonathan/memory/debugging.hpp>

#include "report.hpp"

namespace vf
{
    struct shadow_ent
    {
        std::size_t n;
        unsigned    id;
        bool        arr;
        std::size_t count, size, align;
        int         tag; // free for the harness (iteration index, scope depth, owner, ...)
    };

    struct shadow
    {
        std::map<char*, shadow_ent> live;
        unsigned                    next_id = 1;
        bool                        check_new_fill = FOONATHAN_MEMORY_DEBUG_FILL;

        static unsigned char pat(unsigned id, std::size_t i)
        {
            return (unsigned char)(id * 131u + i * 7u + (i >> 8));
        }

        // owns(p, n): is [p, p+n) inside memory the allocator under test obtained? (nullptr-able)
        template <class Owns>
        shadow_ent& add(Owns&& owns, void* vp, bool arr, std::size_t count, std::size_t size, std::size_t align, int tag = 0)
        {
            auto        p = static_cast<char*>(vp);
            std::size_t n = count * size;
            auto&       k = cx().kind;
            if (!p)
                viol("C03", "C03/" + k + "/returned-null", "throwing allocation function returned null for (%zu x %zu, align %zu)", count,
                     size, align);
            if (reinterpret_cast<std::uintptr_t>(p) % align)
                viol("C02", "C02/" + k + "/misaligned", "pointer %% %zu == %zu for request (%zu x %zu, align %zu)", align,
                     std::size_t(reinterpret_cast<std::uintptr_t>(p) % align), count, size, align);
            if (!owns(p, n))
                viol("C01", "C01/" + k + "/outside-owned", "allocation of %zu bytes is not inside memory obtained from the upstream source", n);
            auto it = live.lower_bound(p);
            if (it != live.end() && it->first < p + n)
                viol("C01", "C01/" + k + "/overlap", "new allocation (%zu bytes) overlaps live allocation #%u (starts %td bytes in)", n,
                     it->second.id, it->first - p);
            if (it != live.begin())
            {
                auto pr = std::prev(it);
                if (pr->first + pr->second.n > p)
                    viol("C01", "C01/" + k + "/overlap", "new allocation (%zu bytes) starts %td bytes inside live allocation #%u (%zu bytes)", n,
                         p - pr->first, pr->second.id, pr->second.n);
            }
            if (check_new_fill)
            {
                auto m = (unsigned char)foonathan::memory::debug_magic::new_memory;
                for (std::size_t i = 0; i < n; ++i)
                    if ((unsigned char)p[i] != m)
                        viol("C17", "C17/" + k + "/new-fill-missing",
                             "byte %zu of a fresh %zu-byte allocation is 0x%02x, not the new-memory pattern", i, n, (unsigned char)p[i]);
                count_fill(n);
            }
            unsigned id = next_id++;
            for (std::size_t i = 0; i < n; ++i)
                p[i] = (char)pat(id, i);
            auto& e = live[p];
            e       = shadow_ent{n, id, arr, count, size, align, tag};
            return e;
        }

        static void count_fill(std::size_t n)
        {
            vf::count("new_fill_bytes_checked", (long long)n);
        }

        void verify(char* p, const shadow_ent& e) const
        {
            for (std::size_t i = 0; i < e.n; ++i)
                if ((unsigned char)p[i] != pat(e.id, i))
                    viol("C01", "C01/" + cx().kind + "/pattern-corrupted",
                         "byte %zu of live allocation #%u (%zu bytes) changed from 0x%02x to 0x%02x", i, e.id, e.n, pat(e.id, i),
                         (unsigned char)p[i]);
        }
        void sweep() const
        {
            for (auto& kv : live)
                verify(kv.first, kv.second);
            vf::count("sweeps");
        }
        // verifies and removes
        shadow_ent retire(char* p)
        {
            auto it = live.find(p);
            auto e  = it->second;
            verify(p, e);
            live.erase(it);
            return e;
        }
        template <class Pred>
        std::size_t retire_if(Pred&& pred)
        {
            std::size_t k = 0;
            for (auto it = live.begin(); it != live.end();)
                if (pred(it->first, it->second))
                {
                    verify(it->first, it->second);
                    it = live.erase(it);
                    ++k;
                }
                else
                    ++it;
            return k;
        }
        // removes without reading the memory (it has been verified just before the allocator took it back)
        template <class Pred>
        std::size_t drop_if(Pred&& pred)
        {
            std::size_t k = 0;
            for (auto it = live.begin(); it != live.end();)
                if (pred(it->first, it->second))
                {
                    it = live.erase(it);
                    ++k;
                }
                else
                    ++it;
            return k;
        }
        std::size_t bytes() const
        {
            std::size_t b = 0;
            for (auto& kv : live)
                b += kv.second.n;
            return b;
        }
        // pick a live allocation
        template <class Rng>
        std::map<char*, shadow_ent>::iterator pick(Rng& r)
        {
            auto it = live.begin();
            std::advance(it, (long)r.below(live.size()));
            return it;
        }
    };
} // namespace vf
