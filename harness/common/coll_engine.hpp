// History engine for memory_pool_collection<PoolType, Buckets> over every block source (see h_coll.cpp).
#pragma once
#include <algorithm>

#include <foonathan/memory/memory_pool_collection.hpp>

#include "core.hpp"

namespace vf_coll
{
    using namespace vf;
    using namespace foonathan::memory;

    template <class PT>
    struct pt_name;
    template <>
    struct pt_name<node_pool>
    {
        static constexpr const char* v = "node";
    };
    template <>
    struct pt_name<array_pool>
    {
        static constexpr const char* v = "array";
    };
    template <>
    struct pt_name<small_node_pool>
    {
        static constexpr const char* v = "small";
    };

    struct req
    {
        bool        arr;
        std::size_t count, size, align;
    };

    template <class PT, class BD, class Src>
    struct coll_engine
    {
        using P   = memory_pool_collection<PT, BD, typename Src::arg>;
        using tr  = allocator_traits<P>;
        using ctr = composable_allocator_traits<P>;
        static constexpr bool is_small = std::is_same<PT, small_node_pool>::value;
        static constexpr bool arrays   = PT::value;
        static constexpr bool ordered  = std::is_same<typename PT::type, detail::ordered_free_memory_list>::value;
        static constexpr bool identity = std::is_same<BD, identity_buckets>::value;

        struct unit
        {
            std::shared_ptr<Src> src = std::make_shared<Src>();
            placed<P>            obj;
            shadow               sh;
            std::ptrdiff_t       net = 0;
            std::vector<std::size_t> cap_empty; // pool_capacity_left(s) for s = 1..max at the last empty point
        };

        rng&                               r;
        std::string                        kind;
        bool                               member;
        std::vector<std::unique_ptr<unit>> units;
        std::vector<std::shared_ptr<Src>>  keep;
        false_report_guard                 frg;
        std::size_t                        maxn, bs0;
        placement                          pl;

        coll_engine(rng& rr, const std::string& k) : r(rr), kind(k) {}

        std::string key(const char* prop, const char* what)
        {
            return std::string(prop) + "/" + kind + "/" + what;
        }

        std::unique_ptr<unit> fresh(placement where, std::size_t max_node = 0)
        {
            std::unique_ptr<unit> u(new unit);
            keep.push_back(u->src);
            auto  bs   = u->src->fix_block_size(bs0);
            void* mem  = place_storage(u->obj, u->src->probe(), where);
            u->obj.obj = u->src->template construct<P>(mem, max_node ? max_node : maxn, bs);
            u->src->check();
            return u;
        }

        req gen_req(P& p)
        {
            req q;
            q.arr = arrays && r.chance(25);
            auto m = p.max_node_size();
            switch (r.below(4))
            {
            case 0:
                q.size = r.range(1, m);
                break;
            case 1: // powers of two and their neighbours (bucket boundaries)
            {
                std::size_t s = std::size_t(1) << r.below(8);
                s += r.below(3);
                s     = s ? s - 1 : 1;
                q.size = std::min<std::size_t>(std::max<std::size_t>(s, 1), m);
                break;
            }
            case 2:
                q.size = m;
                break;
            default:
                q.size = r.range(1, std::min<std::size_t>(m, 16));
                break;
            }
            q.count    = q.arr ? r.range(1, 6) : 1;
            auto maxal = detail::alignment_for(q.size);
            q.align    = std::size_t(1) << r.below(6);
            while (q.align > maxal)
                q.align >>= 1;
            if (q.arr && q.count * q.size * 2 + 64 > tr::max_array_size(p))
            {
                q.arr   = false;
                q.count = 1;
            }
            return q;
        }

        void* raw_alloc(P& p, const req& q, bool try_)
        {
            if (member)
            {
                if (try_)
                    return q.arr ? p.try_allocate_array(q.count, q.size) : p.try_allocate_node(q.size);
                return q.arr ? p.allocate_array(q.count, q.size) : p.allocate_node(q.size);
            }
            if (try_)
                return q.arr ? ctr::try_allocate_array(p, q.count, q.size, q.align) : ctr::try_allocate_node(p, q.size, q.align);
            return q.arr ? tr::allocate_array(p, q.count, q.size, q.align) : tr::allocate_node(p, q.size, q.align);
        }
        void raw_release(unit& u, char* ptr, const shadow_ent& e, bool try_)
        {
            P& p = *u.obj;
            if (member)
            {
                if (try_)
                {
                    bool ok = e.arr ? p.try_deallocate_array(ptr, e.count, e.size) : p.try_deallocate_node(ptr, e.size);
                    if (!ok)
                        {
                            also_scope lost("C04", "C08"); // memory whose release is refused never comes back: capacity is lost
                            viol("C08", key("C08", "refused-own"), "try_deallocate refused memory the collection handed out");
                        }
                }
                else if (e.arr)
                    p.deallocate_array(ptr, e.count, e.size);
                else
                    p.deallocate_node(ptr, e.size);
            }
            else if (try_)
            {
                bool ok = e.arr ? ctr::try_deallocate_array(p, ptr, e.count, e.size, e.align) : ctr::try_deallocate_node(p, ptr, e.size, e.align);
                if (!ok)
                    {
                        also_scope lost("C04", "C08"); // memory whose release is refused never comes back: capacity is lost
                        viol("C08", key("C08", "refused-own"), "try_deallocate_%s refused memory the collection handed out", e.arr ? "array" : "node");
                    }
            }
            else
            {
                if (e.arr)
                    tr::deallocate_array(p, ptr, e.count, e.size, e.align);
                else
                    tr::deallocate_node(p, ptr, e.size, e.align);
                u.net -= std::ptrdiff_t(e.n);
            }
        }

        void do_alloc(unit& u, bool try_)
        {
            P&   p = *u.obj;
            auto q = gen_req(p);
            op("%s%s %zux%zu/%zu", try_ ? "try_" : "", q.arr ? "array" : "node", q.count, q.size, q.align);
            auto  pc0  = p.pool_capacity_left(q.size);
            auto  ac0  = p.capacity_left();
            auto  att0 = u.src->attempts();
            auto  acq0 = u.src->acquisitions();
            auto  oom0 = hl().oom;
            void* ptr  = nullptr;
            bool  threw = false;
            try
            {
                ptr = raw_alloc(p, q, try_);
            }
            catch (out_of_memory&)
            {
                threw = true;
                if (try_)
                    viol("C03", key("C03", "try-threw"), "try_ function threw");
                if (hl().oom == oom0)
                    viol("C03", key("C03", "oom-handler-not-called"), "out_of_memory thrown without calling the out_of_memory handler");
                count("out_of_memory_thrown");
                flag("exhausted");
            }
            catch (bad_array_size&)
            {
                threw = true;
                count("bad_array_size_thrown");
                if (!q.arr)
                    viol("C03", key("C03", "bad-array-size-on-node"), "bad_array_size for a node request");
            }
            u.src->check();
            bool grew = u.src->attempts() != att0;
            if (try_)
            {
                count(q.arr ? "try_alloc_array" : "try_alloc_node");
                if (grew)
                    viol("C03", key("C03", "try-grew"), "try_allocate_%s asked the block source for memory", q.arr ? "array" : "node");
                if (!ptr)
                {
                    count("try_null");
                    if (!q.arr && pc0 > 0)
                        viol("C04", key("C04", "try-null-with-free-node"),
                             "try_allocate_node(%zu) returned null although pool_capacity_left() was %zu", q.size, pc0);
                    frg.check("try_allocate");
                    return;
                }
            }
            else
            {
                count(q.arr ? "alloc_array" : "alloc_node");
                if (threw)
                {
                    u.sh.sweep();
                    return;
                }
                if (!q.arr && pc0 > 0 && (grew || p.capacity_left() != ac0))
                    viol("C04", key("C04", "grew-with-free-node"),
                         "node request of size %zu took memory from the %s although pool_capacity_left() was %zu", q.size,
                         grew ? "block source" : "arena", pc0);
                if (u.src->acquisitions() > acq0 + 1)
                    viol("C05", key("C05", "several-blocks-per-request"), "one request acquired %ld blocks", u.src->acquisitions() - acq0);
            }
            // how many nodes of the bucket did it take? measurable if no memory was added to the bucket
            int taken = -1;
            if (!grew && p.capacity_left() == ac0)
            {
                auto pc1 = p.pool_capacity_left(q.size);
                if (pc1 >= pc0)
                    viol("C18", key("C18", "alloc-delta"), "pool_capacity_left(%zu) went %zu -> %zu across a successful allocation", q.size, pc0, pc1);
                taken = int(pc0 - pc1);
                if (!q.arr && taken != 1)
                    viol("C18", key("C18", "alloc-delta"), "pool_capacity_left(%zu) went %zu -> %zu for one node", q.size, pc0, pc1);
                if (q.arr)
                {
                    // a bucket's nodes are at least `size` bytes and (C19) less than twice that for log2 buckets
                    auto lo = (q.count * q.size + 2 * std::max<std::size_t>(q.size, 8) - 1) / (2 * std::max<std::size_t>(q.size, 8));
                    if (std::size_t(taken) > q.count || std::size_t(taken) < std::max<std::size_t>(lo, 1))
                        viol("C18", key("C18", "alloc-delta"), "array of %zux%zu bytes took %d nodes of its bucket", q.count, q.size, taken);
                }
            }
            auto& e = u.sh.add([&](const char* a, std::size_t n) { return u.src->owns(a, n); }, ptr, q.arr, q.count, q.size, q.align, taken);
            (void)e;
            if (!member && !try_)
                u.net += std::ptrdiff_t(q.count * q.size);
            if (grew)
            {
                flag("grow");
                count("grow");
            }
            if (q.arr && q.count > 1)
                flag("array");
            if (u.sh.live.size() > 1)
                flag("multi-live");
            frg.check("allocate");
        }

        void check_freed_fill(char* ptr, const shadow_ent& e)
        {
#if FOONATHAN_MEMORY_DEBUG_FILL
            if (e.arr && e.count > 1)
                return;
            std::size_t link = is_small ? 1 : sizeof(void*);
            auto        m    = (unsigned char)debug_magic::freed_memory;
            for (std::size_t i = link; i < e.n; ++i)
                if ((unsigned char)ptr[i] != m)
                    viol("C17", key("C17", "freed-fill-missing"), "byte %zu of a %zu-byte node released to the collection is 0x%02x, not the freed-memory pattern",
                         i, e.n, (unsigned char)ptr[i]);
            if (e.n > link)
                count("freed_fill_bytes_checked", (long long)(e.n - link));
#else
            (void)ptr, (void)e;
#endif
        }

        void release_one(unit& u, char* ptr, bool try_)
        {
            P&   p   = *u.obj;
            auto e   = u.sh.retire(ptr);
            auto pc0 = p.pool_capacity_left(e.size);
            auto ac0 = p.capacity_left();
            auto att0 = u.src->attempts();
            raw_release(u, ptr, e, try_);
            count(e.arr ? "release_array" : "release_node");
            u.src->check();
            if (u.src->attempts() != att0)
                viol("C05", key("C05", "release-acquired"), "a release asked the block source for memory");
            auto pc1 = p.pool_capacity_left(e.size);
            if (p.capacity_left() != ac0)
                viol("C18", key("C18", "release-delta"), "arena capacity_left changed %zu -> %zu on a release", ac0, p.capacity_left());
            if (!e.arr || e.count == 1)
            {
                if (pc1 != pc0 + 1)
                    viol("C18", key("C18", "release-delta"), "pool_capacity_left(%zu) went %zu -> %zu on release of one node", e.size, pc0, pc1);
            }
            else if (e.tag > 0)
            {
                if (pc1 != pc0 + std::size_t(e.tag))
                    viol("C04", key("C04", "release-delta"),
                         "array of %zux%zu bytes took %d nodes of its bucket when allocated, release changed pool_capacity_left %zu -> %zu: capacity %s",
                         e.count, e.size, e.tag, pc0, pc1, pc1 < pc0 + std::size_t(e.tag) ? "lost" : "invented");
                flag("array-delta");
            }
            else if (pc1 <= pc0)
                viol("C04", key("C04", "release-delta"), "pool_capacity_left(%zu) did not grow on release of an array (%zu -> %zu)", e.size, pc0, pc1);
            check_freed_fill(ptr, e);
            flag("release");
            if (u.sh.live.empty())
                at_empty(u);
            frg.check("deallocate");
        }

        void do_release(unit& u, bool try_)
        {
            if (u.sh.live.empty())
                return;
            auto it = u.sh.pick(r);
            op("%s #%u (%s %zux%zu)", try_ ? "try_free" : "free", it->second.id, it->second.arr ? "array" : "node", it->second.count,
               it->second.size);
            release_one(u, it->first, try_);
        }

        void at_empty(unit& u)
        {
            P&                       p = *u.obj;
            std::vector<std::size_t> now(p.max_node_size() + 1);
            for (std::size_t s = 1; s <= p.max_node_size(); ++s)
                now[s] = p.pool_capacity_left(s);
            if (!u.cap_empty.empty())
                for (std::size_t s = 1; s <= p.max_node_size(); ++s)
                    if (now[s] < u.cap_empty[s])
                        viol("C04", key("C04", "capacity-shrank-at-empty"),
                             "with everything released pool_capacity_left(%zu) is %zu, at the previous such point it was %zu", s, now[s], u.cap_empty[s]);
            u.cap_empty = now;
            count("empty_points");
        }

        void release_all(unit& u, int order)
        {
            op("release-all order=%d", order);
            std::vector<char*> ptrs;
            for (auto& kv : u.sh.live)
                ptrs.push_back(kv.first);
            if (order == 2)
                std::reverse(ptrs.begin(), ptrs.end());
            else if (order == 0)
                for (std::size_t i = ptrs.size(); i > 1; --i)
                    std::swap(ptrs[i - 1], ptrs[r.below(i)]);
            for (auto ptr : ptrs)
                release_one(u, ptr, false);
            if (ptrs.empty())
                at_empty(u);
        }

        // drain one bucket with try_allocate_node: all results distinct, inside owned memory, never the same twice
        void do_drain(unit& u)
        {
            P& p = *u.obj;
            if (!u.sh.live.empty())
                release_all(u, int(r.below(3)));
            auto s = r.range(1, p.max_node_size());
            op("drain size=%zu", s);
            auto               att0 = u.src->attempts();
            std::vector<char*> v;
            // everything try_ can ever return lies in the current block: more results than bytes is impossible
            auto limit = p.capacity_left() + p.pool_capacity_left(s) * (2 * s + 16) + 64;
            bool capped = false;
            for (;;)
            {
                if (v.size() >= 3000 && v.size() * s < limit)
                {
                    capped = true; // keep the cost of the case bounded (ordered lists release in O(n))
                    break;
                }
                void* q = member ? p.try_allocate_node(s) : ctr::try_allocate_node(p, s, 1);
                if (!q)
                    break;
                v.push_back(static_cast<char*>(q));
                if (v.size() * s > limit)
                    viol("C03", key("C03", "try-never-null"),
                         "try_allocate_node(%zu) returned %zu nodes although only %zu bytes were available without growing", s, v.size(), limit);
                if (v.size() >= 2 && v[v.size() - 1] == v[v.size() - 2])
                    viol("C01", key("C01", "overlap"), "try_allocate_node(%zu) returned the same address twice in a row (result %zu)", s, v.size());
            }
            u.src->check();
            if (u.src->attempts() != att0)
                viol("C03", key("C03", "try-grew"), "try_allocate_node asked the block source for memory during drain");
            auto sorted = v;
            std::sort(sorted.begin(), sorted.end());
            for (std::size_t i = 1; i < sorted.size(); ++i)
                if (sorted[i - 1] + s > sorted[i])
                    viol("C01", key("C01", "overlap"), "drain of bucket %zu: two nodes handed out overlap", s);
            for (auto q : sorted)
                if (!u.src->owns(q, s))
                    viol("C01", key("C01", "outside-owned"), "drain: node outside the collection's blocks");
            if (!capped && p.pool_capacity_left(s) != 0)
                viol("C18", key("C18", "drain-capacity"), "pool_capacity_left(%zu) is %zu after try_allocate_node returned null", s,
                     p.pool_capacity_left(s));
            for (std::size_t i = v.size(); i > 1; --i)
                std::swap(v[i - 1], v[r.below(i)]);
            for (auto q : v)
            {
                bool ok = member ? p.try_deallocate_node(q, s) : ctr::try_deallocate_node(p, q, s, 1);
                if (!ok)
                    {
                        also_scope lost("C04", "C08"); // memory whose release is refused never comes back: capacity is lost
                        viol("C08", key("C08", "refused-own"), "try_deallocate_node refused a node the collection handed out");
                    }
            }
            u.src->check();
            if (!capped && p.pool_capacity_left(s) != v.size())
                viol("C04", key("C04", "drain-refill"), "after returning all %zu drained nodes pool_capacity_left(%zu) is %zu", v.size(), s,
                     p.pool_capacity_left(s));
            count("drains");
            count("drained_nodes", (long long)v.size());
            flag("drain");
            u.cap_empty.clear(); // the drain moved arena memory into one bucket, which is legitimate
            at_empty(u);
            frg.check("drain");
        }

        // reserve(node_size, capacity): "inserts more memory on the free list for nodes of given size", taken from the arena (which
        // grows if it has to). Contract: capacity below next_capacity(); here it also fits a fresh block with padding and fences.
        void do_reserve(unit& u)
        {
            P&          p = *u.obj;
            std::size_t s = r.range(1, p.max_node_size());
            // upper bound of what one node of that bucket occupies: log2 buckets round up, lists have a minimum node size, fences
            std::size_t node_ub = 2 * std::max<std::size_t>(s, 16) + 64;
            std::size_t cap     = r.range(4, 12) * node_ub;
            if (cap + 128 > p.next_capacity() / 2)
                return;
            op("reserve size=%zu capacity=%zu", s, cap);
            auto pc0 = p.pool_capacity_left(s);
            auto ac0 = p.capacity_left();
            auto acq0 = u.src->acquisitions();
            try
            {
                p.reserve(s, cap);
            }
            catch (out_of_memory&)
            {
                u.src->check();
                count("out_of_memory_thrown");
                flag("exhausted");
                return;
            }
            u.src->check();
            auto pc1  = p.pool_capacity_left(s);
            bool grew = u.src->acquisitions() != acq0;
            if (grew)
                flag("grew");
            std::size_t expect = (cap - 64) / node_ub;
            if (pc1 < pc0 + expect)
                viol("C18", key("C18", "reserve-delta"),
                     "reserve(%zu, %zu) took the memory from the arena (capacity_left %zu -> %zu%s) but pool_capacity_left(%zu) went %zu -> %zu; at least %zu more "
                     "nodes fit into the reserved bytes",
                     s, cap, ac0, p.capacity_left(), grew ? ", new block" : "", s, pc0, pc1, expect);
            if (!grew && (ac0 - p.capacity_left() < cap || ac0 - p.capacity_left() > cap + 96))
                viol("C18", key("C18", "reserve-arena-delta"), "reserve(%zu, %zu) changed the arena's capacity_left %zu -> %zu", s, cap, ac0, p.capacity_left());
            count("reserves");
            flag("reserve");
            u.cap_empty.clear(); // the reservation moved arena memory into one bucket, which is legitimate
            frg.check("reserve");
        }

        void do_cycle(unit& u)
        {
            P& p = *u.obj;
            if (!u.sh.live.empty())
                release_all(u, int(r.below(3)));
            if (!Src::growing)
                return;
            int              k = int(r.range(1, 10));
            std::vector<req> pat;
            for (int i = 0; i < k; ++i)
            {
                auto q = gen_req(p);
                if (q.arr && !ordered)
                {
                    q.arr   = false;
                    q.count = 1;
                }
                pat.push_back(q);
            }
            std::string d;
            for (auto& q : pat)
                d += fmt("%s%zux%zu ", q.arr ? "a" : "n", q.count, q.size);
            int reps = int(r.range(6, 30));
            op("cycle x%d: %s", reps, d.c_str());
            long after2 = 0;
            for (int c = 0; c < reps; ++c)
            {
                std::vector<std::pair<void*, int>> got;
                bool                               stop = false;
                for (int i = 0; i < k; ++i)
                {
                    void* m;
                    try
                    {
                        m = raw_alloc(p, pat[i], false);
                    }
                    catch (out_of_memory&)
                    {
                        stop = true;
                        break;
                    }
                    catch (bad_array_size&)
                    {
                        stop = true;
                        break;
                    }
                    got.push_back({m, i});
                }
                u.src->check();
                for (std::size_t a = 0; a < got.size(); ++a)
                    for (std::size_t b = a + 1; b < got.size(); ++b)
                    {
                        auto pa = (char*)got[a].first, pb = (char*)got[b].first;
                        auto na = pat[got[a].second].count * pat[got[a].second].size, nb = pat[got[b].second].count * pat[got[b].second].size;
                        if (pa < pb + nb && pb < pa + na)
                            viol("C01", key("C01", "overlap"), "cycle: two live allocations overlap");
                    }
                for (std::size_t i = got.size(); i > 0; --i)
                {
                    std::swap(got[i - 1], got[r.below(i)]);
                    auto& q = pat[got[i - 1].second];
                    auto  m = got[i - 1].first;
                    if (member)
                    {
                        if (q.arr)
                            p.deallocate_array(m, q.count, q.size);
                        else
                            p.deallocate_node(m, q.size);
                    }
                    else if (q.arr)
                        tr::deallocate_array(p, m, q.count, q.size, q.align);
                    else
                        tr::deallocate_node(p, m, q.size, q.align);
                }
                u.src->check();
                if (stop)
                    break;
                if (c == 1)
                    after2 = u.src->attempts();
                if (c > 1 && u.src->attempts() != after2)
                    viol("C04", key("C04", "cycle-grows"),
                         "repetition %d of an allocate/release cycle asked the block source for another block (pattern: %s)", c + 1, d.c_str());
            }
            count("cycles");
            flag("cycle");
            u.cap_empty.clear();
            frg.check("cycle");
        }

        void do_move_construct(unit& u)
        {
            also_scope moved("C12", "C01 C05 C15"); // the C01/C05/C15 oracles continue across the move: what they find here is C12's too
            op("move-construct");
            placed<P> n;
            auto      leaks0 = hl().leaks.size();
            n.obj            = ::new (n.storage()) P(std::move(*u.obj));
            u.obj.destroy();
            if (hl().leaks.size() != leaks0)
                viol("C15", key("C15", "moved-from-reported"), "destroying a moved-from collection called the leak handler");
            u.obj = std::move(n);
            u.src->check();
            u.sh.sweep();
            count("move_construct");
            flag("move");
            frg.check("move-construct");
        }

        void do_move_assign(unit& u)
        {
            also_scope moved("C12", "C01 C05 C15"); // the C01/C05/C15 oracles continue across the move: what they find here is C12's too
            bool used = r.chance(60);
            op("move-assign onto %s target", used ? "used" : "fresh");
            // (a target built for another maximum node size: the number of pools must move along with the pools)
            auto t = fresh(placement::heap, r.chance(50) ? 0 : r.range(std::min<std::size_t>(8, maxn), maxn));
            if (used)
            {
                P&  tp = *t->obj;
                int k  = int(r.range(1, 40));
                std::vector<std::pair<void*, req>> got;
                for (int i = 0; i < k; ++i)
                {
                    auto q  = gen_req(tp);
                    q.arr   = false;
                    q.count = 1;
                    void* m;
                    try
                    {
                        m = raw_alloc(tp, q, false);
                    }
                    catch (out_of_memory&)
                    {
                        break;
                    }
                    got.push_back({m, q});
                }
                for (std::size_t i = got.size(); i > 0; --i)
                {
                    std::swap(got[i - 1], got[r.below(i)]);
                    auto& q = got[i - 1].second;
                    if (member)
                        tp.deallocate_node(got[i - 1].first, q.size);
                    else
                        tr::deallocate_node(tp, got[i - 1].first, q.size, q.align);
                }
                t->src->check();
            }
            auto leaks0 = hl().leaks.size();
            *t->obj     = std::move(*u.obj);
            t->src->check();
            u.src->check();
            if (hl().leaks.size() != leaks0)
                viol("C15", key("C15", "move-assign-reported"), "move assignment onto a balanced collection called the leak handler");
            if (!t->src->balanced())
                viol("C12", key("C12", "move-assign-target-blocks-kept"),
                     "after move assignment the target's own blocks were not returned to its block source");
            u.obj.destroy();
            if (hl().leaks.size() != leaks0)
                viol("C15", key("C15", "moved-from-reported"), "destroying a moved-from collection called the leak handler");
            u.obj = std::move(t->obj);
            u.src->check();
            u.sh.sweep();
            count("move_assign");
            flag("move");
            frg.check("move-assign");
        }

        void do_swap(unit& a, unit& b)
        {
            also_scope moved("C12", "C01 C05 C15"); // the C01/C05/C15 oracles continue across the move: what they find here is C12's too
            op("swap");
            using std::swap;
            swap(*a.obj, *b.obj);
            std::swap(a.src, b.src);
            std::swap(a.sh, b.sh);
            std::swap(a.net, b.net);
            std::swap(a.cap_empty, b.cap_empty);
            a.src->check();
            b.src->check();
            a.sh.sweep();
            b.sh.sweep();
            count("swap");
            flag("move");
            frg.check("swap");
        }

        void destroy(std::unique_ptr<unit>& u, bool leak_some)
        {
            if (!leak_some && !u->sh.live.empty())
                release_all(*u, int(r.below(3)));
            u->sh.sweep();
            op("destroy net=%td", u->net);
            hl().leaks.clear();
            u->obj.destroy();
            u->src->check();
#if FOONATHAN_MEMORY_DEBUG_LEAK_CHECK
            if (u->net == 0 && !hl().leaks.empty())
                viol("C15", key("C15", "reported-although-balanced"), "leak handler called with %td although everything was released", hl().leaks[0]);
            if (u->net != 0 && (hl().leaks.size() != 1 || hl().leaks[0] != u->net))
                viol("C15", key("C15", "leak-amount"), "net %td bytes were not released; leak handler called %zu times, first amount %td", u->net,
                     hl().leaks.size(), hl().leaks.empty() ? std::ptrdiff_t(0) : hl().leaks[0]);
            count(u->net ? "leak_reports_checked" : "silent_destructions_checked");
            if (u->net)
                flag("leak");
#else
            if (!hl().leaks.empty())
                viol("C15", key("C15", "reported-although-disabled"), "leak handler called although leak checking is disabled");
#endif
            if (!u->src->balanced())
                viol("C05", key("C05", "not-balanced-at-destruction"), "after destruction upstream blocks are still outstanding");
            count("destructions");
        }

        void setup()
        {
            member = r.chance(25);
            maxn   = r.chance(8) ? r.range(1, 7) : r.chance(50) ? r.range(8, 40) : r.range(8, 130); // (1..7: below the lists' own minimum node size)
            // documented requirement: max_node_size < block_size / number of pools; stay clear of undocumented minimums
            // (the list array itself and, for small nodes, a chunk header per reservation come out of the same block)
            for (;;)
            {
                std::size_t pools = identity ? maxn : 9;
                bs0               = pools * 80 + pools * r.range(3, 10) * (maxn + 24) + r.below(700);
                if (bs0 <= Src::max_block)
                    break;
                maxn = maxn * 2 / 3; // the block source of this kind has a largest block size
            }
            // the documented requirement on the block size is only "max_node_size < block_size / number of pools": now and then a block
            // that just meets it (log2 buckets with a large maximum: the list array still fits into the first block)
            // (the constructor itself rejects, with bad_node_size, a block whose share per list - after alignment and fences - is below
            //  the maximum node size: then the ordinary block size is used)
            std::size_t roomy = bs0;
            bool        tight = false;
            if (!identity && maxn >= 100 && r.chance(12))
            {
                auto cand = 9 * (maxn + 1) + r.below(300) + (maxn > 128 ? 0 : 600);
                if (cand <= Src::max_block)
                {
                    bs0   = cand;
                    tight = true;
                }
            }
            pl                = placement(r.below(3));
            op("setup %s max_node=%zu bs=%zu placement=%s", member ? "member" : "traits", maxn, bs0, placement_name(pl));
            try
            {
                units.push_back(fresh(pl));
                if (tight)
                    flag("tight-block");
            }
            catch (bad_node_size&)
            {
                if (!tight)
                    throw;
                op("the constructor refused the tight block: bs=%zu", roomy);
                count("tight_block_refused_by_constructor");
                bs0 = roomy;
                units.push_back(fresh(pl));
            }
            flag(placement_name(pl));
        }

        void step_walk()
        {
            auto& u = *units[r.below(units.size())];
            auto  x = r.below(1000);
            if (x < 430)
                do_alloc(u, false);
            else if (x < 490)
                do_alloc(u, true);
            else if (x < 900)
                do_release(u, false);
            else if (x < 930)
                do_release(u, true);
            else if (x < 945)
                do_move_construct(u);
            else if (x < 958)
                do_move_assign(u);
            else if (x < 966 && units.size() >= 2)
                do_swap(*units[0], *units[1]);
            else if (x < 974 && units.size() < 3)
            {
                op("second collection");
                units.push_back(fresh(placement::heap));
            }
            else if (x < 982)
                do_drain(u);
            else if (x < 987)
                do_reserve(u);
            else if (x < 992)
                do_cycle(u);
            else if (units.size() > 1)
            {
                auto i = r.below(units.size());
                destroy(units[i], r.chance(40));
                units.erase(units.begin() + long(i));
            }
            if (cx().step % 32 == 0)
                for (auto& v : units)
                {
                    v->sh.sweep();
                    if (auto pr = v->src->probe())
                    {
                        pr->sweep_canaries();
                        pr->check();
                    }
                }
        }

        void run_phased(int ops)
        {
            while (cx().step < ops)
            {
                int fill = int(r.range(10, 150));
                for (int i = 0; i < fill && cx().step < ops; ++i)
                    do_alloc(*units[0], r.chance(10));
                int churn = int(r.range(10, 100));
                for (int i = 0; i < churn && cx().step < ops; ++i)
                {
                    if (r.chance(50))
                        do_release(*units[0], r.chance(10));
                    else
                        do_alloc(*units[0], r.chance(15));
                }
                auto what = r.below(6);
                if (what < 3)
                    release_all(*units[0], int(what));
                else if (what == 3)
                    do_drain(*units[0]);
                else if (what == 4)
                    do_move_assign(*units[0]);
                else
                    do_move_construct(*units[0]);
                units[0]->sh.sweep();
            }
        }

        // exhaustion: on a source that cannot grow keep asking one or two buckets with try_ until null, release, repeat
        void run_exhaust(int ops)
        {
            auto& u = *units[0];
            while (cx().step < ops)
            {
                do_drain(u);
                int k = int(r.range(1, 30));
                for (int i = 0; i < k && cx().step < ops; ++i)
                    do_alloc(u, r.chance(50));
                k = int(r.range(1, 30));
                for (int i = 0; i < k && cx().step < ops; ++i)
                    do_release(u, false);
            }
        }

        void run(const std::string& mode, int ops)
        {
            // when bucket selection (C19) is being decided: a node that is smaller than, or not aligned for, the size it was chosen for
            // shows as overlapping / misaligned / mis-counted memory of the collection
            also_scope buckets(cx().prop == "C19" ? "C19" : "", "C01 C02 C18");
            setup();
            if (mode == "phased")
                run_phased(ops);
            else if (mode == "corner")
                run_exhaust(ops);
            else
                while (cx().step < ops)
                    step_walk();
            while (!units.empty())
            {
                destroy(units.back(), r.chance(30));
                units.pop_back();
            }
            for (auto& g : keep)
                if (!g->balanced())
                    viol("C05", key("C05", "not-balanced-at-destruction"), "a block source is left with outstanding blocks at the end of the case");
        }
    };

    template <class PT, class BD, class Src>
    void run_kind(const args& a)
    {
        std::string kind = std::string("coll<") + pt_name<PT>::v + "," + (std::is_same<BD, identity_buckets>::value ? "identity" : "log2") + ">/"
                           + Src::name;
        if (a.kind != "all" && a.kind != kind)
            return;
        for (long c = a.from; c < a.to; ++c)
            run_case(kind, c, [&] {
                auto                     r = case_rng(a.seed, a.group, kind, c);
                coll_engine<PT, BD, Src> e(r, kind);
                e.run(a.group, a.ops);
            });
    }

    template <class PT, class BD>
    void run_sources(const args& a)
    {
        run_kind<PT, BD, src_grow>(a);
        run_kind<PT, BD, src_fixed>(a);
        run_kind<PT, BD, src_blk>(a);
        run_kind<PT, BD, src_static>(a);
        run_kind<PT, BD, src_virtual>(a);
    }
} // namespace vf_coll
