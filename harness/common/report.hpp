// Line protocol between a harness process and the driver (one JSON object per line on stdout),
// the per-case context (trace, flags, signature) and the crash breadcrumb.
#pragma once
#include <csignal>
#include <cstdarg>
#include <cstdint>
#include <cstdio>
#include <cstdlib>
#include <cstring>
#include <exception>
#include <map>
#include <set>
#include <string>
#include <unordered_set>
#include <vector>
#include <unistd.h>
#include <sys/resource.h>

#ifndef VERIF_CONFIG_NAME
#define VERIF_CONFIG_NAME "?"
#endif
#ifndef VERIF_FLAVOUR_NAME
#define VERIF_FLAVOUR_NAME "?"
#endif

namespace vf
{
    // thrown by viol() to abandon the current case (state may be corrupted)
    struct case_abort
    {
    };
    // set by the probes when they refuse a request because the *harness* ran out of its own budget
    // (region full, request above 2 GiB): the case is skipped, nothing is judged
    inline bool& resource_exhausted()
    {
        static bool f = false;
        return f;
    }

    inline void emit_raw(const char* s, std::size_t n)
    {
        while (n)
        {
            auto w = ::write(1, s, n);
            if (w <= 0)
                break;
            s += w;
            n -= std::size_t(w);
        }
    }
    inline void emit(const std::string& line)
    {
        std::string l = line;
        l += '\n';
        emit_raw(l.data(), l.size());
    }

    inline std::string jesc(const std::string& s)
    {
        std::string o;
        for (unsigned char c : s)
        {
            if (c == '"' || c == '\\')
            {
                o += '\\';
                o += char(c);
            }
            else if (c < 0x20)
            {
                char b[8];
                snprintf(b, sizeof b, "\\u%04x", c);
                o += b;
            }
            else
                o += char(c);
        }
        return o;
    }

    inline std::string fmt(const char* f, ...)
    {
        char    b[1024];
        va_list ap;
        va_start(ap, f);
        vsnprintf(b, sizeof b, f, ap);
        va_end(ap);
        return b;
    }

    inline std::uint64_t fnv(std::uint64_t h, const void* p, std::size_t n)
    {
        auto c = static_cast<const unsigned char*>(p);
        for (std::size_t i = 0; i < n; ++i)
        {
            h ^= c[i];
            h *= 0x100000001b3ull;
        }
        return h;
    }
    inline std::uint64_t fnv(std::uint64_t h, const std::string& s)
    {
        return fnv(h, s.data(), s.size());
    }

    struct context
    {
        std::string prop;     // property being decided by this run
        std::string harness;  // harness name
        std::string group;    // scenario / group
        std::string kind;     // allocator kind of the current case
        std::uint64_t seed = 1;
        long          case_no = -1;
        int           step    = 0;
        bool          verbose = false;
        std::vector<std::string> trace;
        std::set<std::string>    flags;
        // a violation of one of `also_for` is, in the current engine, also a violation of `also` (e.g. overlapping allocations of an
        // iteration_allocator violate C01 and C07): the line then carries both ids
        std::string also, also_for;
        std::uint64_t            sig = 0;

        // accumulated over the process
        long cases = 0, nontrivial = 0, viols = 0;
        std::unordered_set<std::uint64_t> sigs;
        std::map<std::string, long long>  events;
        int samples_left = 3;
        bool (*nontrivial_rule)(const std::set<std::string>&) = nullptr;
    };
    inline context& cx()
    {
        static context c;
        return c;
    }

    // --- crash breadcrumb (async-signal-safe) ---
    struct crumb_t
    {
        char case_id[256];
        volatile int step;
    };
    inline crumb_t& crumb()
    {
        static crumb_t c;
        return c;
    }
    inline void sig_write(const char* s)
    {
        emit_raw(s, std::strlen(s));
    }
    inline void sig_write_int(long v)
    {
        char  b[24];
        char* p = b + sizeof b;
        *--p    = 0;
        bool neg = v < 0;
        unsigned long u = neg ? 0ul - (unsigned long)v : (unsigned long)v;
        do
        {
            *--p = char('0' + u % 10);
            u /= 10;
        } while (u);
        if (neg)
            *--p = '-';
        sig_write(p);
    }
    inline void crash_line(const char* what, int sig)
    {
        sig_write("\n{\"t\":\"crash\",\"what\":\"");
        sig_write(what);
        sig_write("\",\"sig\":");
        sig_write_int(sig);
        sig_write(",\"case\":\"");
        sig_write(crumb().case_id);
        sig_write("\",\"step\":");
        sig_write_int(crumb().step);
        sig_write("}\n");
    }
    inline void on_signal(int sig)
    {
        const char* n = sig == SIGSEGV ? "SIGSEGV" :
                        sig == SIGABRT ? "SIGABRT" :
                        sig == SIGBUS  ? "SIGBUS" :
                        sig == SIGFPE  ? "SIGFPE" :
                        sig == SIGILL  ? "SIGILL" :
                        sig == SIGXCPU ? "SIGXCPU" :
                                         "SIG?";
        crash_line(n, sig);
        _exit(sig == SIGXCPU ? 65 : 64);
    }
    inline void on_terminate()
    {
        crash_line("terminate", 0);
        _exit(64);
    }
    inline void install_crash_handlers()
    {
        // an alternate stack so that stack overflow in a corrupted list walk is still reported
        static char altstack[1 << 16];
        stack_t     ss;
        ss.ss_sp    = altstack;
        ss.ss_size  = sizeof altstack;
        ss.ss_flags = 0;
        sigaltstack(&ss, nullptr);
        struct sigaction sa;
        std::memset(&sa, 0, sizeof sa);
        sa.sa_handler = on_signal;
        sa.sa_flags   = SA_ONSTACK;
        for (int s : {SIGSEGV, SIGABRT, SIGBUS, SIGFPE, SIGILL, SIGXCPU})
            sigaction(s, &sa, nullptr);
        std::set_terminate(on_terminate);
    }

    inline std::string case_id()
    {
        auto& c = cx();
        return c.harness + "|" VERIF_CONFIG_NAME "|" VERIF_FLAVOUR_NAME "|" + c.group + "|" + c.kind + "|"
               + std::to_string(c.case_no);
    }

    inline void begin_case(const std::string& kind, long case_no)
    {
        auto& c   = cx();
        c.kind    = kind;
        c.case_no = case_no;
        c.step    = 0;
        c.trace.clear();
        c.flags.clear();
        c.also.clear();
        c.also_for.clear();
        c.sig = fnv(0xcbf29ce484222325ull, kind + "|" VERIF_CONFIG_NAME "|" + c.group);
        snprintf(crumb().case_id, sizeof crumb().case_id, "%s", case_id().c_str());
        crumb().step = 0;
    }

    // records one operation of the current case; text must not contain addresses
    inline void op(const char* f, ...)
    {
        char    b[256];
        va_list ap;
        va_start(ap, f);
        vsnprintf(b, sizeof b, f, ap);
        va_end(ap);
        auto& c = cx();
        ++c.step;
        crumb().step = c.step;
        c.sig        = fnv(c.sig, b, std::strlen(b));
        if (c.trace.size() < 4000)
            c.trace.emplace_back(b);
        if (c.verbose)
            emit(fmt("{\"t\":\"op\",\"step\":%d,\"op\":\"%s\"}", c.step, jesc(b).c_str()));
    }
    inline void flag(const char* f)
    {
        cx().flags.insert(f);
    }
    inline void count(const char* ev, long long n = 1)
    {
        cx().events[ev] += n;
    }

    inline std::string trace_json(std::size_t max_ops)
    {
        auto&       c = cx();
        std::string t = "[";
        std::size_t from = c.trace.size() > max_ops ? c.trace.size() - max_ops : 0;
        for (std::size_t i = from; i < c.trace.size(); ++i)
        {
            if (i != from)
                t += ",";
            t += "\"" + jesc(c.trace[i]) + "\"";
        }
        return t + "]";
    }

    // reports a violation of property `prop` with stable key `key` (no seeds, no addresses) and abandons the case
    [[noreturn]] inline void viol(const char* prop, const std::string& key, const char* f, ...)
    {
        char    b[768];
        va_list ap;
        va_start(ap, f);
        vsnprintf(b, sizeof b, f, ap);
        va_end(ap);
        auto& c = cx();
        ++c.viols;
        std::string props = prop;
        if (!c.also.empty() && c.also != prop && c.also_for.find(prop) != std::string::npos)
            props += "+" + c.also;
        emit(fmt("{\"t\":\"viol\",\"prop\":\"%s\",\"key\":\"%s\",\"case\":\"%s\",\"step\":%d,\"msg\":\"", props.c_str(),
                 jesc(key).c_str(), jesc(case_id()).c_str(), c.step)
             + jesc(b) + "\",\"trace\":" + trace_json(60) + "}");
        throw case_abort{};
    }
    // same, but does not throw (for use in noexcept contexts; the caller abandons the case later)
    inline void viol_nothrow(const char* prop, const std::string& key, const std::string& msg)
    {
        auto& c = cx();
        ++c.viols;
        emit(fmt("{\"t\":\"viol\",\"prop\":\"%s\",\"key\":\"%s\",\"case\":\"%s\",\"step\":%d,\"msg\":\"", prop,
                 jesc(key).c_str(), jesc(case_id()).c_str(), c.step)
             + jesc(msg) + "\",\"trace\":" + trace_json(60) + "}");
    }

    // a violation after which the case can go on (used where a listed known finding would otherwise end every case early):
    // emitted once per key and process, does not count towards the early-exit limit
    inline void viol_continue(const char* prop, const std::string& key, const std::string& msg)
    {
        static std::set<std::string> seen;
        count(("soft_violations:" + key).c_str());
        if (!seen.insert(key).second)
            return;
        auto& c = cx();
        emit(fmt("{\"t\":\"viol\",\"prop\":\"%s\",\"key\":\"%s\",\"case\":\"%s\",\"step\":%d,\"msg\":\"", prop, jesc(key).c_str(),
                 jesc(case_id()).c_str(), c.step)
             + jesc(msg) + "\",\"trace\":" + trace_json(60) + "}");
    }

    // while alive, violations of the properties in `for_` also count as violations of `also_` (see context::also)
    struct also_scope
    {
        std::string old_also, old_for;
        also_scope(const char* also_, const char* for_) : old_also(cx().also), old_for(cx().also_for)
        {
            cx().also     = also_;
            cx().also_for = for_;
        }
        ~also_scope()
        {
            cx().also     = old_also;
            cx().also_for = old_for;
        }
    };

    inline void end_case(bool completed)
    {
        auto& c = cx();
        ++c.cases;
        if (!completed)
            return;
        bool nt = c.nontrivial_rule ? c.nontrivial_rule(c.flags) : !c.trace.empty();
        if (nt)
        {
            if (c.sigs.insert(c.sig).second)
                ++c.nontrivial;
            if (c.samples_left > 0)
            {
                --c.samples_left;
                std::string fl;
                for (auto& f : c.flags)
                    fl += (fl.empty() ? "\"" : ",\"") + f + "\"";
                // first 40 ops of the case
                std::string t = "[";
                for (std::size_t i = 0; i < c.trace.size() && i < 40; ++i)
                    t += (i ? ",\"" : "\"") + jesc(c.trace[i]) + "\"";
                if (c.trace.size() > 40)
                    t += fmt(",\"... %zu more\"", c.trace.size() - 40);
                t += "]";
                emit("{\"t\":\"sample\",\"case\":\"" + jesc(case_id()) + "\",\"flags\":[" + fl + "],\"ops\":" + t + "}");
            }
        }
    }

    inline void finish()
    {
        auto&       c = cx();
        std::string s = fmt("{\"t\":\"stat\",\"prop\":\"%s\",\"cases\":%ld,\"nontrivial\":%ld,\"viols\":%ld,\"sig\":[",
                            c.prop.c_str(), c.cases, c.nontrivial, c.viols);
        bool first = true;
        for (auto h : c.sigs)
        {
            s += fmt("%s\"%016llx\"", first ? "" : ",", (unsigned long long)h);
            first = false;
        }
        s += "],\"events\":{";
        first = true;
        for (auto& e : c.events)
        {
            s += fmt("%s\"%s\":%lld", first ? "" : ",", jesc(e.first).c_str(), e.second);
            first = false;
        }
        s += "}}";
        emit(s);
        emit("{\"t\":\"done\"}");
    }

    // common command line: --prop P --group G --kind K --seed S --cases A..B [--case-only N] [--ops N] [--verbose]
    struct args
    {
        std::string prop = "C01", group = "walk", kind = "all";
        std::uint64_t seed = 1;
        long          from = 0, to = 10;
        int           ops = 300;
        std::map<std::string, std::string> extra;
        long        num(const char* k, long d) const
        {
            auto it = extra.find(k);
            return it == extra.end() ? d : atol(it->second.c_str());
        }
        std::string str(const char* k, const char* d) const
        {
            auto it = extra.find(k);
            return it == extra.end() ? d : it->second;
        }
    };
    inline args parse_args(int argc, char** argv, const char* harness)
    {
        args a;
        for (int i = 1; i < argc; ++i)
        {
            std::string k = argv[i];
            auto        v = [&]() -> std::string { return i + 1 < argc ? argv[++i] : ""; };
            if (k == "--prop")
                a.prop = v();
            else if (k == "--group")
                a.group = v();
            else if (k == "--kind")
                a.kind = v();
            else if (k == "--seed")
                a.seed = strtoull(v().c_str(), nullptr, 10);
            else if (k == "--ops")
                a.ops = atoi(v().c_str());
            else if (k == "--cases")
            {
                auto s = v();
                auto d = s.find("..");
                a.from = atol(s.c_str());
                a.to   = d == std::string::npos ? a.from + 1 : atol(s.c_str() + d + 2);
            }
            else if (k == "--case-only")
            {
                a.from = atol(v().c_str());
                a.to   = a.from + 1;
            }
            else if (k == "--verbose")
                cx().verbose = true;
            else if (k.rfind("--", 0) == 0)
                a.extra[k.substr(2)] = v();
        }
        auto& c   = cx();
        c.prop    = a.prop;
        c.harness = harness;
        c.group   = a.group;
        c.seed    = a.seed;
        install_crash_handlers();
        return a;
    }

    // runs one case body with the standard handling of case_abort
    template <class F>
    bool run_case(const std::string& kind, long case_no, F&& body)
    {
        begin_case(kind, case_no);
        bool ok = false;
        resource_exhausted() = false;
        try
        {
            body();
            ok = true;
        }
        catch (case_abort&)
        {
        }
        catch (std::exception& ex)
        {
            if (resource_exhausted())
                count("cases_skipped_harness_budget");
            else
                viol_nothrow(cx().prop.c_str(), cx().prop + "/" + kind + "/unexpected-exception",
                             std::string("an exception escaped a valid history: ") + ex.what());
        }
        end_case(ok);
        if (cx().viols >= 8)
        {
            // enough evidence; further cases of this process would mostly repeat it
            finish();
            _exit(0);
        }
        return ok;
    }
} // namespace vf
