// Pool history engine (see h_pool.cpp); instantiated per pool type in h_pool_<type>.cpp to keep compile times down.
#pragma once
#include <algorithm>
#include <tuple>

#include <foonathan/memory/memory_pool.hpp>

#include "core.hpp"

namespace vf_pool
{
using namespace vf;
using namespace foonathan::memory;
    template <class PT>
    struct pt_name;
    template <>
    struct pt_name<node_pool>
    {
        static constexpr const char* v = "node";
    };
    template <>
    struct pt_name<array_pool>
    {
        static constexpr const char* v = "array";
    };
    template <>
    struct pt_name<small_node_pool>
    {
        static constexpr const char* v = "small";
    };

    struct req
    {
        bool        arr;
        std::size_t count, size, align;
    };

    template <class PT, class Src>
    struct pool_engine
    {
        using P   = memory_pool<PT, typename Src::arg>;
        using tr  = allocator_traits<P>;
        using ctr = composable_allocator_traits<P>;
        static constexpr bool is_small = std::is_same<PT, small_node_pool>::value;
        static constexpr bool arrays   = PT::value;
        // ordered list: arrays can always be found again after release
        static constexpr bool ordered = std::is_same<typename PT::type, detail::ordered_free_memory_list>::value;

        struct unit
        {
            std::shared_ptr<Src> src = std::make_shared<Src>();
            placed<P>            obj;
            shadow               sh;
            std::ptrdiff_t       net = 0;       // traits-level bytes allocated - released (C15)
            std::size_t          cap_empty = 0; // capacity at the last point where nothing was live
            bool                 has_cap_empty = false;
        };

        rng&                               r;
        std::string                        kind;
        bool                               member; // use the member interface instead of allocator_traits
        std::vector<std::unique_ptr<unit>> units;
        std::vector<std::shared_ptr<Src>>  graveyard;
        false_report_guard                 frg;
        std::size_t                        ns0, bs0;
        placement                          pl;

        pool_engine(rng& rr, const std::string& k) : r(rr), kind(k) {}

        std::string key(const char* prop, const char* what)
        {
            return std::string(prop) + "/" + kind + "/" + what;
        }

        std::unique_ptr<unit> fresh(std::size_t ns, std::size_t bs, placement where)
        {
            std::unique_ptr<unit> u(new unit);
            graveyard.push_back(u->src); // objects may end up living in this source's region after moves and swaps
            bs         = u->src->fix_block_size(bs);
            void* mem  = place_storage(u->obj, u->src->probe(), where);
            u->obj.obj = u->src->template construct<P>(mem, ns, bs);
            u->src->check();
            u->cap_empty     = u->obj->capacity_left();
            u->has_cap_empty = true;
            return u;
        }

        req gen_req(P& p)
        {
            req q;
            auto ns = p.node_size();
            q.arr   = arrays && !member && r.chance(25);
            if (member)
            {
                q.arr   = arrays && r.chance(25);
                q.size  = ns;
                q.count = q.arr ? r.range(1, 6) : 1;
                q.align = tr::max_alignment(p);
                return q;
            }
            q.count = q.arr ? r.range(1, 6) : 1;
            // element sizes that round to another node count than count*size/node_size are the interesting ones
            switch (r.below(4))
            {
            case 0:
                q.size = ns;
                break;
            case 1:
                q.size = r.range(1, ns);
                break;
            case 2:
                q.size = ns > 1 ? ns - 1 : 1;
                break;
            default:
                q.size = r.range((ns + 1) / 2, ns);
                break;
            }
            auto maxal = tr::max_alignment(p);
            q.align    = std::size_t(1) << r.below(8);
            while (q.align > maxal)
                q.align >>= 1;
            if (q.arr && q.count * q.size > tr::max_array_size(p))
            {
                q.arr   = false;
                q.count = 1;
            }
            return q;
        }

        static std::size_t nodes_of(const P& p, bool arr, std::size_t bytes)
        {
            auto ns = p.node_size();
            return (!arr || bytes <= ns) ? 1 : (bytes + ns - 1) / ns;
        }

        // ---- operations ----
        void do_alloc(unit& u, bool try_)
        {
            P&   p = *u.obj;
            auto q = gen_req(p);
            auto ns = p.node_size();
            op("%s%s %zux%zu/%zu", try_ ? "try_" : "", q.arr ? "array" : "node", q.count, q.size, q.align);
            auto cap0  = p.capacity_left();
            auto nc    = p.next_capacity();
            auto acq0  = u.src->acquisitions();
            auto att0  = u.src->attempts();
            auto oom0  = hl().oom;
            void* ptr  = nullptr;
            bool  threw = false;
            try
            {
                if (member)
                {
                    if (try_)
                        ptr = q.arr ? p.try_allocate_array(q.count) : p.try_allocate_node();
                    else
                        ptr = q.arr ? p.allocate_array(q.count) : p.allocate_node();
                }
                else if (try_)
                    ptr = q.arr ? ctr::try_allocate_array(p, q.count, q.size, q.align) : ctr::try_allocate_node(p, q.size, q.align);
                else
                    ptr = q.arr ? tr::allocate_array(p, q.count, q.size, q.align) : tr::allocate_node(p, q.size, q.align);
            }
            catch (out_of_memory&)
            {
                threw = true;
                if (try_)
                    viol("C03", key("C03", "try-threw"), "try_ function threw");
                // legitimate only if the source cannot provide another block
                if (hl().oom == oom0)
                    viol("C03", key("C03", "oom-handler-not-called"), "out_of_memory thrown without calling the out_of_memory handler");
                count("out_of_memory_thrown");
                flag("exhausted");
            }
            catch (bad_array_size&)
            {
                // documented: an array may not fit even a fresh block
                threw = true;
                count("bad_array_size_thrown");
                if (!q.arr)
                    viol("C03", key("C03", "bad-array-size-on-node"), "bad_array_size for a node request");
            }
            u.src->check();
            bool grew = u.src->attempts() != att0;
            std::size_t bytes = q.count * q.size;
            std::size_t took  = nodes_of(p, q.arr, bytes) * ns;
            if (try_)
            {
                count(q.arr ? "try_alloc_array" : "try_alloc_node");
                if (grew)
                    viol("C03", key("C03", "try-grew"), "try_allocate_%s asked the block source for memory", q.arr ? "array" : "node");
                if (!ptr)
                {
                    count("try_null");
                    if (!q.arr && cap0 >= ns)
                        viol("C04", key("C04", "try-null-with-free-node"),
                             "try_allocate_node returned null although capacity_left() was %zu (node size %zu)", cap0, ns);
                    if (p.capacity_left() != cap0)
                        viol("C18", key("C18", "failed-try-changed-capacity"), "capacity_left changed %zu -> %zu across a failed try_", cap0,
                             p.capacity_left());
                    frg.check("try_allocate");
                    return;
                }
            }
            else
            {
                count(q.arr ? "alloc_array" : "alloc_node");
                if (threw)
                {
                    // after a failure the allocator must still be usable and earlier allocations intact
                    u.sh.sweep();
                    return;
                }
                if (!q.arr && cap0 >= ns && grew)
                    viol("C04", key("C04", "grew-with-free-node"),
                         "node request asked the block source for memory although capacity_left() was %zu (node size %zu)", cap0, ns);
                if (u.src->acquisitions() > acq0 + 1)
                    viol("C05", key("C05", "several-blocks-per-request"), "one request acquired %ld blocks", u.src->acquisitions() - acq0);
            }
            u.sh.add([&](const char* a, std::size_t n) { return u.src->owns(a, n); }, ptr, q.arr, q.count, member ? ns : q.size, q.align);
            if (!member && !try_)
                u.net += std::ptrdiff_t(bytes); // C15 counts what goes through allocator_traits
            if (grew)
            {
                flag("grow");
                count("grow");
                auto cap1 = p.capacity_left();
                // (exact for the small-node list as well since its usable_size() mirrors insert(), fix 4d8ea09)
                if (true)
                {
                    if (cap1 != cap0 + nc - took)
                        viol("C18", key("C18", "growth-delta"),
                             "capacity_left after growth is %zu; before %zu + announced next_capacity %zu - taken %zu = %zu", cap1, cap0, nc,
                             took, cap0 + nc - took);
                }
                else if (cap1 + took > cap0 + nc)
                    viol("C18", key("C18", "growth-exceeds-announced"),
                         "small pool: capacity_left after growth %zu exceeds before %zu + next_capacity %zu - taken %zu", cap1, cap0, nc, took);
            }
            else if (p.capacity_left() != cap0 - took)
                viol("C18", key("C18", "alloc-delta"), "capacity_left went %zu -> %zu for a request that takes %zu bytes of nodes (node size %zu)",
                     cap0, p.capacity_left(), took, ns);
            if (q.arr && q.size != ns && (bytes % ns))
                flag("uneven-array");
            if (u.sh.live.size() > 1)
                flag("multi-live");
            frg.check("allocate");
        }

        void check_freed_fill(P& p, char* ptr, const shadow_ent& e)
        {
#if FOONATHAN_MEMORY_DEBUG_FILL
            if (e.arr && e.n > p.node_size())
                return; // every node of the array carries a link, only single nodes are judged
            std::size_t link = is_small ? 1 : sizeof(void*);
            auto        m    = (unsigned char)debug_magic::freed_memory;
            auto        ns   = p.node_size();
            for (std::size_t i = link; i < ns; ++i)
                if ((unsigned char)ptr[i] != m)
                    viol("C17", key("C17", "freed-fill-missing"), "byte %zu of a node released to the pool is 0x%02x, not the freed-memory pattern",
                         i, (unsigned char)ptr[i]);
            count("freed_fill_bytes_checked", (long long)(ns - link));
#else
            (void)p, (void)ptr, (void)e;
#endif
        }

        void do_release(unit& u, bool try_)
        {
            if (u.sh.live.empty())
                return;
            P&   p  = *u.obj;
            auto it = u.sh.pick(r);
            auto ptr = it->first;
            auto e   = u.sh.retire(ptr);
            auto ns  = p.node_size();
            op("%s #%u (%s %zux%zu)", try_ ? "try_free" : "free", e.id, e.arr ? "array" : "node", e.count, e.size);
            auto cap0 = p.capacity_left();
            auto att0 = u.src->attempts();
            if (member)
            {
                if (try_)
                {
                    bool ok = e.arr ? p.try_deallocate_array(ptr, e.count) : p.try_deallocate_node(ptr);
                    if (!ok)
                        {
                            also_scope lost("C04", "C08"); // memory whose release is refused never comes back: capacity is lost
                            viol("C08", key("C08", "refused-own"), "try_deallocate refused memory the pool handed out");
                        }
                }
                else if (e.arr)
                    p.deallocate_array(ptr, e.count);
                else
                    p.deallocate_node(ptr);
            }
            else if (try_)
            {
                bool ok = e.arr ? ctr::try_deallocate_array(p, ptr, e.count, e.size, e.align) : ctr::try_deallocate_node(p, ptr, e.size, e.align);
                if (!ok)
                    {
                        also_scope lost("C04", "C08"); // memory whose release is refused never comes back: capacity is lost
                        viol("C08", key("C08", "refused-own"), "try_deallocate_%s refused memory the pool handed out", e.arr ? "array" : "node");
                    }
                // not an allocator_traits release: the C15 model does not count it
            }
            else
            {
                if (e.arr)
                    tr::deallocate_array(p, ptr, e.count, e.size, e.align);
                else
                    tr::deallocate_node(p, ptr, e.size, e.align);
                u.net -= std::ptrdiff_t(e.n);
            }
            count(e.arr ? "release_array" : "release_node");
            u.src->check();
            if (u.src->attempts() != att0)
                viol("C05", key("C05", "release-acquired"), "a release asked the block source for memory");
#if FOONATHAN_MEMORY_DEBUG_FILL
            // the freed-memory fill of this release must not reach into neighbouring live allocations (C17)
            if (e.arr || try_)
                for (auto& kv : u.sh.live)
                {
                    auto& le = kv.second;
                    for (std::size_t i = 0; i < le.n; ++i)
                        if ((unsigned char)kv.first[i] != shadow::pat(le.id, i))
                        {
                            if ((unsigned char)kv.first[i] == (unsigned char)debug_magic::freed_memory || i < sizeof(void*))
                                viol("C17", key("C17", "release-fill-touched-neighbour"),
                                     "releasing a %zu-byte %s wrote the freed-memory pattern or a list link into live allocation #%u (byte %zu)", e.n,
                                     e.arr ? "array" : "node", le.id, i);
                            break;
                        }
                }
#endif
            auto gave = nodes_of(p, e.arr, e.n) * ns;
            if (p.capacity_left() != cap0 + gave)
                viol(e.arr ? "C04" : "C18", key(e.arr ? "C04" : "C18", "release-delta"),
                     "capacity_left went %zu -> %zu on release of %zu bytes that occupied %zu bytes of nodes (node size %zu): capacity %s", cap0,
                     p.capacity_left(), e.n, gave, ns, p.capacity_left() < cap0 + gave ? "lost" : "invented");
            check_freed_fill(p, ptr, e);
            flag("release");
            if (u.sh.live.empty())
                at_empty(u);
            frg.check("deallocate");
        }

        // ordered list: an array that was just released can always be found again - asking for the same array must not reach the block source
        void do_realloc_array(unit& u)
        {
            if (!ordered || member || u.sh.live.empty())
                return;
            P& p = *u.obj;
            std::vector<char*> arrs;
            for (auto& kv : u.sh.live)
                if (kv.second.arr && kv.second.n > p.node_size())
                    arrs.push_back(kv.first);
            if (arrs.empty())
                return;
            auto ptr = arrs[r.below(arrs.size())];
            auto e   = u.sh.retire(ptr);
            op("release array #%u (%zux%zu) and allocate the same again", e.id, e.count, e.size);
            tr::deallocate_array(p, ptr, e.count, e.size, e.align);
            u.net -= std::ptrdiff_t(e.n);
            u.src->check();
            auto att0 = u.src->attempts();
            void* q;
            try
            {
                q = tr::allocate_array(p, e.count, e.size, e.align);
            }
            catch (std::bad_alloc&)
            {
                viol("C04", key("C04", "released-array-not-reusable"), "the array that was just released cannot be allocated again");
            }
            u.src->check();
            if (u.src->attempts() != att0)
                viol("C04", key("C04", "grew-with-free-array"),
                     "allocating the %zux%zu array that was released a moment ago asked the block source for memory although the ordered free list holds it",
                     e.count, e.size);
            u.sh.add([&](const char* a, std::size_t n) { return u.src->owns(a, n); }, q, true, e.count, e.size, e.align);
            u.net += std::ptrdiff_t(e.n);
            count("array_reallocations");
            flag("uneven-array");
            frg.check("array reallocation");
        }

        // nothing live: capacity must not be lower than at the previous such point (C04)
        void at_empty(unit& u)
        {
            auto c = u.obj->capacity_left();
            if (u.has_cap_empty && c < u.cap_empty)
                viol("C04", key("C04", "capacity-shrank-at-empty"),
                     "with everything released capacity_left() is %zu, at the previous such point it was %zu", c, u.cap_empty);
            u.cap_empty     = c;
            u.has_cap_empty = true;
            count("empty_points");
        }

        void release_all(unit& u, int order)
        {
            // order 0 random, 1 ascending address, 2 descending
            op("release-all order=%d", order);
            P& p = *u.obj;
            std::vector<char*> ptrs;
            for (auto& kv : u.sh.live)
                ptrs.push_back(kv.first);
            if (order == 2)
                std::reverse(ptrs.begin(), ptrs.end());
            else if (order == 0)
                for (std::size_t i = ptrs.size(); i > 1; --i)
                    std::swap(ptrs[i - 1], ptrs[r.below(i)]);
            for (auto ptr : ptrs)
            {
                auto e = u.sh.retire(ptr);
                if (member)
                {
                    if (e.arr)
                        p.deallocate_array(ptr, e.count);
                    else
                        p.deallocate_node(ptr);
                }
                else
                {
                    if (e.arr)
                        tr::deallocate_array(p, ptr, e.count, e.size, e.align);
                    else
                        tr::deallocate_node(p, ptr, e.size, e.align);
                    u.net -= std::ptrdiff_t(e.n);
                }
                u.src->check();
                count(e.arr ? "release_array" : "release_node");
            }
            flag("release");
            at_empty(u);
            frg.check("release-all");
        }

        // at an empty point: try_allocate_node until null gives exactly capacity_left/node_size distinct nodes (C04 d)
        void do_drain(unit& u)
        {
            P& p = *u.obj;
            if (!u.sh.live.empty())
                release_all(u, int(r.below(3)));
            auto ns   = p.node_size();
            auto want = p.capacity_left() / ns;
            if (want > 3000)
                return;
            op("drain want=%zu", want);
            auto               att0 = u.src->attempts();
            std::vector<char*> v;
            for (;;)
            {
                void* q = member ? p.try_allocate_node() : ctr::try_allocate_node(p, ns, 1);
                if (!q)
                    break;
                v.push_back(static_cast<char*>(q));
                if (v.size() > want + 8)
                    break;
            }
            u.src->check();
            if (u.src->attempts() != att0)
                viol("C03", key("C03", "try-grew"), "try_allocate_node asked the block source for memory during drain");
            if (v.size() != want)
                viol("C04", key("C04", "drain-count"), "draining the pool gave %zu nodes, capacity_left()/node_size() announced %zu", v.size(), want);
            auto s = v;
            std::sort(s.begin(), s.end());
            for (std::size_t i = 1; i < s.size(); ++i)
                if (s[i - 1] + ns > s[i])
                    viol("C01", key("C01", "overlap"), "drain: two nodes handed out overlap");
            for (auto q : s)
                if (!u.src->owns(q, ns))
                    viol("C01", key("C01", "outside-owned"), "drain: node outside the pool's blocks");
            if (p.capacity_left() != 0 && p.capacity_left() >= ns)
                viol("C18", key("C18", "drain-capacity"), "capacity_left() is %zu after try_allocate_node returned null", p.capacity_left());
            // give them back in a seeded order
            for (std::size_t i = v.size(); i > 1; --i)
                std::swap(v[i - 1], v[r.below(i)]);
            for (auto q : v)
            {
                // composable interface in both directions: the traits-level leak count is not involved
                bool ok = member ? p.try_deallocate_node(q) : ctr::try_deallocate_node(p, q, ns, 1);
                if (!ok)
                    {
                        also_scope lost("C04", "C08"); // memory whose release is refused never comes back: capacity is lost
                        viol("C08", key("C08", "refused-own"), "try_deallocate_node refused a node the pool handed out");
                    }
            }
            u.src->check();
            if (p.capacity_left() != want * ns)
                viol("C04", key("C04", "drain-refill"), "after returning all %zu drained nodes capacity_left() is %zu, expected %zu", want,
                     p.capacity_left(), want * ns);
            count("drains");
            flag("drain");
            at_empty(u);
            frg.check("drain");
        }

        // a recorded allocate/release pattern repeated must stop acquiring blocks after the second repetition (C04 c)
        void do_cycle(unit& u)
        {
            P& p = *u.obj;
            if (!u.sh.live.empty())
                release_all(u, int(r.below(3)));
            if (!Src::growing)
                return;
            auto ns = p.node_size();
            int  k  = int(r.range(1, 10));
            std::vector<req> pat;
            for (int i = 0; i < k; ++i)
            {
                auto q = gen_req(p);
                // arrays on the unordered list may legitimately need new blocks (documented): node-only patterns there
                if (q.arr && !ordered)
                {
                    q.arr   = false;
                    q.count = 1;
                }
                pat.push_back(q);
            }
            std::string d;
            for (auto& q : pat)
                d += fmt("%s%zux%zu ", q.arr ? "a" : "n", q.count, q.size);
            int reps = int(r.range(6, 30));
            op("cycle x%d: %s", reps, d.c_str());
            long after2 = 0;
            for (int c = 0; c < reps; ++c)
            {
                std::vector<std::pair<void*, int>> got;
                bool                               stop = false;
                for (int i = 0; i < k; ++i)
                {
                    auto& q = pat[i];
                    void* m;
                    try
                    {
                        if (member)
                            m = q.arr ? p.allocate_array(q.count) : p.allocate_node();
                        else
                            m = q.arr ? tr::allocate_array(p, q.count, q.size, q.align) : tr::allocate_node(p, q.size, q.align);
                    }
                    catch (out_of_memory&)
                    {
                        stop = true; // static / virtual storage used up: legitimate, the cycle test ends unjudged
                        break;
                    }
                    catch (bad_array_size&)
                    {
                        stop = true; // documented: an array may not fit a fresh block
                        break;
                    }
                    got.push_back({m, i});
                }
                if (stop)
                    reps = c; // release what was taken, then leave
                u.src->check();
                // pairwise disjoint
                for (std::size_t a = 0; a < got.size(); ++a)
                    for (std::size_t b = a + 1; b < got.size(); ++b)
                    {
                        auto pa = (char*)got[a].first, pb = (char*)got[b].first;
                        auto na = pat[got[a].second].count * (member ? ns : pat[got[a].second].size),
                             nb = pat[got[b].second].count * (member ? ns : pat[got[b].second].size);
                        if (pa < pb + nb && pb < pa + na)
                            viol("C01", key("C01", "overlap"), "cycle: two live allocations overlap");
                    }
                for (std::size_t i = got.size(); i > 0; --i)
                {
                    std::swap(got[i - 1], got[r.below(i)]);
                    auto& q = pat[got[i - 1].second];
                    if (member)
                    {
                        if (q.arr)
                            p.deallocate_array(got[i - 1].first, q.count);
                        else
                            p.deallocate_node(got[i - 1].first);
                    }
                    else if (q.arr)
                        tr::deallocate_array(p, got[i - 1].first, q.count, q.size, q.align);
                    else
                        tr::deallocate_node(p, got[i - 1].first, q.size, q.align);
                }
                u.src->check();
                if (stop)
                    break;
                if (c == 1)
                    after2 = u.src->attempts();
                if (c > 1 && u.src->attempts() != after2)
                    viol("C04", key("C04", "cycle-grows"),
                         "repetition %d of an allocate/release cycle asked the block source for another block (pattern: %s)", c + 1, d.c_str());
            }
            count("cycles");
            count("cycle_repetitions", reps);
            flag("cycle");
            u.cap_empty = p.capacity_left(); // growth in the first repetitions is legitimate
            frg.check("cycle");
        }

        void do_move_construct(unit& u)
        {
            also_scope moved("C12", "C01 C05 C15"); // the C01/C05/C15 oracles continue across the move: what they find here is C12's too
            op("move-construct");
            placed<P> n;
            auto      leaks0 = hl().leaks.size();
            // the new object goes to the heap: the old storage is destroyed below
            n.obj = ::new (n.storage()) P(std::move(*u.obj));
            u.obj.destroy();
            if (hl().leaks.size() != leaks0)
                viol("C15", key("C15", "moved-from-reported"), "destroying a moved-from pool called the leak handler");
            u.obj = std::move(n);
            u.src->check();
            u.sh.sweep();
            count("move_construct");
            flag("move");
            frg.check("move-construct");
        }

        void do_move_assign(unit& u)
        {
            also_scope moved("C12", "C01 C05 C15"); // the C01/C05/C15 oracles continue across the move: what they find here is C12's too
            bool used = r.chance(60);
            op("move-assign onto %s target", used ? "used" : "fresh");
            // (another block size than the assigned-from pool: the block source's parameters must move along)
            // (and, half of the time, another node size: everything that describes the nodes must come from the assigned-from pool)
            std::size_t tns = r.chance(50) ? ns0 : (is_small ? r.range(1, 40) : r.range(1, 72));
            auto t = fresh(tns, r.chance(50) && tns == ns0 ? bs0 : P::min_block_size(tns, r.range(1, 120)), placement::heap);
            auto src_node_size = u.obj->node_size();
            bool target_unbalanced = false;
            if (used)
            {
                // target has handed out and taken back memory, possibly grown
                P&  tp = *t->obj;
                int k  = int(r.range(1, 40));
                std::vector<std::pair<void*, req>> got;
                for (int i = 0; i < k; ++i)
                {
                    auto q = gen_req(tp);
                    q.arr  = false;
                    q.count = 1;
                    void* m;
                    try
                    {
                        m = member ? tp.allocate_node() : tr::allocate_node(tp, q.size, q.align);
                    }
                    catch (out_of_memory&)
                    {
                        break; // fixed source exhausted: legitimate
                    }
                    got.push_back({m, q});
                }
                // sometimes the target keeps a few nodes (its net count is not zero when it is assigned to): what happens to that count
                // is not stated by the property and is not judged, but the count of the source must arrive and the source report nothing
                bool keep_some = r.chance(30);
                for (std::size_t i = got.size(); i > 0; --i)
                {
                    std::swap(got[i - 1], got[r.below(i)]);
                    if (keep_some && i % 3 == 0)
                        continue;
                    if (member)
                        tp.deallocate_node(got[i - 1].first);
                    else
                        tr::deallocate_node(tp, got[i - 1].first, got[i - 1].second.size, got[i - 1].second.align);
                }
                t->src->check();
                if (keep_some)
                    target_unbalanced = true;
            }
            auto leaks0 = hl().leaks.size();
            *t->obj     = std::move(*u.obj);
            t->src->check();
            u.src->check();
            if (target_unbalanced)
                leaks0 = hl().leaks.size(); // a report for the target's own outstanding memory at this point is not judged
            if (hl().leaks.size() != leaks0)
                viol("C15", key("C15", "move-assign-reported"), "move assignment onto a balanced pool called the leak handler");
            if (t->obj->node_size() != src_node_size)
                viol("C12", key("C12", "move-assign-node-size"), "after move assignment node_size() is %zu, the assigned-from pool had %zu", t->obj->node_size(),
                     src_node_size);
            if (!t->src->balanced())
                viol("C12", key("C12", "move-assign-target-blocks-kept"),
                     "after move assignment the target's own blocks were not returned to its block source");
            u.obj.destroy(); // moved-from
            if (hl().leaks.size() != leaks0)
                viol("C15", key("C15", "moved-from-reported"), "destroying a moved-from pool called the leak handler");
            u.obj = std::move(t->obj);
            u.src->check();
            u.sh.sweep();
            count("move_assign");
            flag("move");
            frg.check("move-assign");
        }

        void do_swap(unit& a, unit& b)
        {
            also_scope moved("C12", "C01 C05 C15"); // the C01/C05/C15 oracles continue across the move: what they find here is C12's too
            op("swap");
            using std::swap;
            swap(*a.obj, *b.obj);
            std::swap(a.src, b.src);
            std::swap(a.sh, b.sh);
            std::swap(a.net, b.net);
            std::swap(a.cap_empty, b.cap_empty);
            a.src->check();
            b.src->check();
            a.sh.sweep();
            b.sh.sweep();
            count("swap");
            flag("move");
            frg.check("swap");
        }

        void destroy(std::unique_ptr<unit>& u, bool leak_some)
        {
            if (!leak_some && !u->sh.live.empty())
                release_all(*u, int(r.below(3)));
            u->sh.sweep();
            op("destroy net=%td", u->net);
            hl().leaks.clear();
            u->obj.destroy();
            u->src->check();
#if FOONATHAN_MEMORY_DEBUG_LEAK_CHECK
            {
                if (u->net == 0 && !hl().leaks.empty())
                    viol("C15", key("C15", "reported-although-balanced"), "leak handler called with %td although everything was released",
                         hl().leaks[0]);
                if (u->net != 0 && (hl().leaks.size() != 1 || hl().leaks[0] != u->net))
                    viol("C15", key("C15", "leak-amount"), "net %td bytes were not released; leak handler called %zu times, first amount %td", u->net,
                         hl().leaks.size(), hl().leaks.empty() ? std::ptrdiff_t(0) : hl().leaks[0]);
                count(u->net ? "leak_reports_checked" : "silent_destructions_checked");
                if (u->net)
                    flag("leak");
            }
#else
            if (!hl().leaks.empty())
                viol("C15", key("C15", "reported-although-disabled"), "leak handler called although leak checking is disabled");
#endif
            if (!u->src->balanced())
                viol("C05", key("C05", "not-balanced-at-destruction"), "after destruction %s upstream blocks are still outstanding", "some");
            count("destructions");
        }
        bool flagged(const char* f)
        {
            return cx().flags.count(f) != 0;
        }

        // ---- generator modes ----
        void setup()
        {
            member = r.chance(25);
            ns0    = is_small ? r.range(1, 40) : r.range(1, 72);
            // block size: exactly the documented minimum for a few nodes up to generous
            auto n = r.range(1, 80);
            bs0    = P::min_block_size(ns0, n) + (r.chance(50) ? r.below(64) : 0);
            pl     = placement(r.below(3));
            op("setup %s ns=%zu bs=%zu placement=%s", member ? "member" : "traits", ns0, bs0, placement_name(pl));
            units.push_back(fresh(ns0, bs0, pl));
            flag(placement_name(pl));
        }

        void step_walk(int occupancy_bias)
        {
            auto& u = *units[r.below(units.size())];
            auto  x = r.below(1000);
            // occupancy_bias: -1 drain phase, 0 neutral, +1 fill phase
            std::size_t alloc_w = occupancy_bias > 0 ? 620 : occupancy_bias < 0 ? 200 : 430;
            if (x < alloc_w)
                do_alloc(u, false);
            else if (x < alloc_w + 60)
                do_alloc(u, true);
            else if (x < 900)
                do_release(u, false);
            else if (x < 922)
                do_release(u, true);
            else if (x < 930)
                do_realloc_array(u);
            else if (x < 945)
                do_move_construct(u);
            else if (x < 958)
                do_move_assign(u);
            else if (x < 966 && units.size() >= 2)
                do_swap(*units[0], *units[1]);
            else if (x < 974 && units.size() < 3)
            {
                op("second pool");
            {
                // (a second pool may have another node size: swap then exchanges that as well)
                std::size_t ns2 = r.chance(50) ? ns0 : (is_small ? r.range(1, 40) : r.range(1, 72));
                units.push_back(fresh(ns2, ns2 == ns0 ? bs0 : P::min_block_size(ns2, r.range(2, 60)), placement::heap));
            }
            }
            else if (x < 982)
                do_drain(u);
            else if (x < 992)
                do_cycle(u);
            else if (units.size() > 1)
            {
                auto i = r.below(units.size());
                destroy(units[i], r.chance(40));
                units.erase(units.begin() + long(i));
            }
            if (cx().step % 32 == 0)
                for (auto& v : units)
                {
                    v->sh.sweep();
                    if (auto pr = v->src->probe())
                    {
                        pr->sweep_canaries();
                        pr->check();
                    }
                }
        }

        // fill to the block boundary, churn at high occupancy, release in a fixed order, arrays in between
        void run_phased(int ops)
        {
            int done = 0;
            while (done < ops)
            {
                int fill = int(r.range(10, 120));
                for (int i = 0; i < fill && done < ops; ++i, ++done)
                    do_alloc(*units[0], r.chance(10));
                int churn = int(r.range(10, 100));
                for (int i = 0; i < churn && done < ops; ++i, ++done)
                {
                    if (r.chance(45))
                        do_release(*units[0], r.chance(10));
                    else if (r.chance(10))
                        do_realloc_array(*units[0]);
                    else
                        do_alloc(*units[0], r.chance(15));
                }
                auto what = r.below(6);
                if (what < 3)
                    release_all(*units[0], int(what));
                else if (what == 3)
                    do_drain(*units[0]);
                else if (what == 4)
                    do_move_assign(*units[0]);
                else
                    do_move_construct(*units[0]);
                ++done;
                units[0]->sh.sweep();
            }
        }

        // take every node of the first block, release seeded subsets in ascending / descending / random order, ask for
        // arrays in between: drives the positional caches of the ordered list and the chunk search of the small list
        void run_corner(int ops)
        {
            auto& u  = *units[0];
            P&    p  = *u.obj;
            auto  ns = p.node_size();
            std::vector<char*> all;
            while (p.capacity_left() >= ns && all.size() < 4000)
            {
                auto  cap0 = p.capacity_left();
                void* q    = member ? p.allocate_node() : tr::allocate_node(p, ns, 1);
                auto& e    = u.sh.add([&](const char* a, std::size_t n) { return u.src->owns(a, n); }, q, false, 1, ns, 1);
                (void)e;
                if (!member)
                    u.net += std::ptrdiff_t(ns);
                all.push_back((char*)q);
                if (p.capacity_left() != cap0 - ns)
                    viol("C18", key("C18", "alloc-delta"), "capacity_left went %zu -> %zu for one node", cap0, p.capacity_left());
            }
            op("take-all %zu nodes", all.size());
            std::sort(all.begin(), all.end());
            int rounds = int(r.range(2, 8));
            for (int round = 0; round < rounds && cx().step < ops; ++round)
            {
                // choose a subset by position class
                std::vector<char*> sub;
                auto               n = all.size();
                if (n == 0)
                    break;
                switch (r.below(5))
                {
                case 0: // a run at the tail
                    for (auto i = n - std::min<std::size_t>(n, r.range(1, 8)); i < n; ++i)
                        sub.push_back(all[i]);
                    break;
                case 1: // a run at the front
                    for (std::size_t i = 0; i < std::min<std::size_t>(n, r.range(1, 8)); ++i)
                        sub.push_back(all[i]);
                    break;
                case 2: // scattered
                    for (std::size_t i = 0; i < n; ++i)
                        if (r.chance(30))
                            sub.push_back(all[i]);
                    break;
                case 3: // a run in the middle
                {
                    auto a = r.below(n), len = r.range(1, 10);
                    for (auto i = a; i < n && i < a + len; ++i)
                        sub.push_back(all[i]);
                    break;
                }
                default: // single nodes: first, last, one in the middle
                    sub.push_back(all[0]);
                    if (n > 2)
                        sub.push_back(all[n / 2]);
                    if (n > 1)
                        sub.push_back(all[n - 1]);
                    break;
                }
                auto order = r.below(3);
                if (order == 1)
                    std::reverse(sub.begin(), sub.end());
                else if (order == 2)
                    for (std::size_t i = sub.size(); i > 1; --i)
                        std::swap(sub[i - 1], sub[r.below(i)]);
                op("release subset of %zu, order %zu", sub.size(), order);
                for (auto q : sub)
                {
                    if (!u.sh.live.count(q))
                        continue;
                    auto e    = u.sh.retire(q);
                    auto cap0 = p.capacity_left();
                    if (member)
                        p.deallocate_node(q);
                    else
                    {
                        tr::deallocate_node(p, q, e.size, e.align);
                        u.net -= std::ptrdiff_t(e.n);
                    }
                    if (p.capacity_left() != cap0 + ns)
                        viol("C18", key("C18", "release-delta"), "capacity_left went %zu -> %zu on release of one node", cap0, p.capacity_left());
                    all.erase(std::find(all.begin(), all.end(), q));
                    count("release_node");
                }
                u.src->check();
                frg.check("corner-release");
                flag("release");
                // now arrays and nodes
                int k = int(r.range(1, 6));
                for (int i = 0; i < k; ++i)
                    do_alloc(u, r.chance(30));
                // and single releases from what is live
                k = int(r.range(1, 6));
                for (int i = 0; i < k; ++i)
                    do_release(u, false);
                all.clear();
                for (auto& kv : u.sh.live)
                    if (!kv.second.arr)
                        all.push_back(kv.first);
                u.sh.sweep();
            }
            flag("corner");
            while (cx().step < ops)
                step_walk(0);
        }

        void run(const std::string& mode, int ops)
        {
            setup();
            if (mode == "phased")
                run_phased(ops);
            else if (mode == "corner")
                run_corner(ops);
            else
                while (cx().step < ops)
                    step_walk(0);
            while (!units.empty())
            {
                destroy(units.back(), r.chance(30));
                units.pop_back();
            }
            for (auto& g : graveyard)
                if (!g->balanced())
                    viol("C05", key("C05", "not-balanced-at-destruction"), "a block source is left with outstanding blocks at the end of the case");
        }
    };

    template <class PT, class Src>
    void run_kind(const args& a)
    {
        std::string kind = std::string("pool<") + pt_name<PT>::v + ">/" + Src::name;
        if (a.kind != "all" && a.kind != kind)
            return;
        for (long c = a.from; c < a.to; ++c)
            run_case(kind, c, [&] {
                auto r = case_rng(a.seed, a.group, kind, c);
                pool_engine<PT, Src> e(r, kind);
                try
                {
                    e.run(a.group, a.ops);
                }
                catch (case_abort&)
                {
                    // objects of an abandoned case are destroyed without further judgement
                    throw;
                }
            });
    }

    template <class PT>
    void run_sources(const args& a)
    {
        run_kind<PT, src_grow>(a);
        run_kind<PT, src_fixed>(a);
        run_kind<PT, src_blk>(a);
        run_kind<PT, src_static>(a);
        run_kind<PT, src_virtual>(a);
    }
} // namespace vf_pool
