// Instrumented upstream allocators ("probes"): RawAllocator and BlockAllocator that log and check
// everything an allocator built on top of them does with its upstream memory.
#pragma once
#include <algorithm>
#include <cstdint>
#include <cstdlib>
#include <cstring>
#include <map>
#include <memory>
#include <new>
#include <string>
#include <vector>

#include <foonathan/memory/error.hpp>
#include <foonathan/memory/memory_arena.hpp>

#include "report.hpp"

#if defined(__SANITIZE_ADDRESS__)
#include <sanitizer/asan_interface.h>
#define VF_POISON(p, n) __asan_poison_memory_region((p), (n))
#define VF_UNPOISON(p, n) __asan_unpoison_memory_region((p), (n))
#define VF_ASAN 1
#else
#define VF_POISON(p, n) ((void)0)
#define VF_UNPOISON(p, n) ((void)0)
#define VF_ASAN 0
#endif

namespace vf
{
    namespace fm = foonathan::memory;

    struct probe_rec
    {
        bool          array;
        char*         p;
        std::size_t   count, size, align;
        std::uint64_t id;
        char*         raw;
        std::size_t   bytes;
    };

    struct probe_state
    {
        std::string name = "up";
        std::string prop = "C05"; // property blamed for release-shape / double-release / LIFO problems
        std::string canary_prop = "C01"; // property blamed when bytes next to a block are overwritten
        std::size_t budget = std::size_t(-1); // refuses (std::bad_alloc) whatever would bring the live bytes above it
        std::map<char*, probe_rec> live;
        std::vector<char*>         order; // live blocks in acquisition order
        long          attempts = 0, served = 0, releases = 0;
        long          fail_at = -1; // index of the attempt that fails (0-based), -1: never
        int           fail_kind = 0; // 0: std::bad_alloc, 1: foonathan out_of_memory
        long          fired = 0, refused_by_budget = 0;
        long          own_bad_alloc = 0; // the probe itself could not serve (overflowing size, above 2 GiB, region full, malloc failed)
        bool          check_lifo  = false;
        bool          exact_align = true;
        std::uint64_t next_id     = 1;
        std::size_t   bytes_live = 0, bytes_peak = 0;
        // a problem noticed inside a noexcept function; raised by check()
        bool        pending = false;
        std::string pend_prop, pend_key, pend_msg;
        // short log for samples: "+id:size" / "-id"
        std::vector<std::string> log;

        static constexpr std::size_t canary = 32;

        // region mode: blocks are carved bottom-up from one region and never reused, so the harness controls
        // where the allocator object lies relative to its memory (below / above) and siblings are adjacent
        char *      region = nullptr, *region_cur = nullptr, *region_end = nullptr;
        std::size_t region_bytes = 0;
        std::size_t region_gap = canary; // distance kept between consecutive blocks (0: back to back)
        bool        region_down = false; // carve from the top of the region downwards: later blocks have lower addresses
        void        use_region(std::size_t bytes, std::size_t gap = canary)
        {
            region       = static_cast<char*>(std::malloc(bytes));
            region_bytes = bytes;
            region_cur   = region;
            region_end   = region + bytes;
            region_gap = gap;
            std::memset(region, 0xEE, bytes);
            VF_POISON(region, bytes);
        }

        void problem(const std::string& prop_, const std::string& key, const std::string& msg)
        {
            if (pending)
                return;
            pending   = true;
            pend_prop = prop_;
            pend_key  = key;
            pend_msg  = msg;
        }

        // raises a recorded problem as a violation (call after every operation on the allocator under test)
        void check()
        {
            if (!pending)
                return;
            pending = false;
            viol(pend_prop.c_str(), pend_prop + "/" + cx().kind + "/" + pend_key, "%s", pend_msg.c_str());
        }

        void* acquire(bool array, std::size_t count, std::size_t size, std::size_t align)
        {
            auto idx = attempts++;
            if (fail_at >= 0 && idx == fail_at)
            {
                ++fired;
                count_ev("upstream_failures_injected");
                if (fail_kind == 1)
                    throw fm::out_of_memory(fm::allocator_info{"vf::probe", this}, count * size);
                throw std::bad_alloc();
            }
            if (align == 0 || (align & (align - 1)))
            {
                problem("C09", "upstream-bad-alignment-arg", fmt("upstream %s asked for alignment %zu", name.c_str(), align));
                align = 16;
            }
            std::size_t n = count * size;
            if (budget != std::size_t(-1) && bytes_live + n > budget)
            {
                ++refused_by_budget;
                throw std::bad_alloc();
            }
            if (count != 0 && n / count != size)
            {
                // overflowing request: a real allocator would fail
                ++own_bad_alloc;
                throw std::bad_alloc();
            }
            std::size_t total = n + 2 * canary + 2 * align + 16;
            if (total < n || n > (std::size_t(1) << 31))
            {
                resource_exhausted() = true;
                ++own_bad_alloc;
                throw std::bad_alloc();
            }
            char* raw;
            if (region)
            {
                if (std::size_t(region_end - region_cur) < total)
                {
                    resource_exhausted() = true;
                    ++own_bad_alloc;
                    throw std::bad_alloc();
                }
                if (region_down)
                {
                    region_end -= total;
                    raw = region_end;
                }
                else
                    raw = region_cur;
            }
            else
            {
                raw = static_cast<char*>(std::malloc(total));
                if (!raw)
                {
                    ++own_bad_alloc;
                    throw std::bad_alloc();
                }
                std::memset(raw, 0xA5, total);
            }
            auto a = reinterpret_cast<std::uintptr_t>(raw + (region ? region_gap : canary));
            std::uintptr_t p;
            if (exact_align)
            {
                // aligned to `align` but not to 2*align
                p = (a + 2 * align - 1) / (2 * align) * (2 * align) + align;
                if (p - 2 * align >= a)
                    p -= 2 * align;
            }
            else
                p = (a + align - 1) / align * align;
            auto ptr = reinterpret_cast<char*>(p);
            if (region)
            {
                if (!region_down)
                    region_cur = ptr + n;
                VF_UNPOISON(ptr, n);
                std::memset(ptr, 0xA5, n);
            }
            else
            {
                std::memset(ptr - canary, 0xEE, canary);
                std::memset(ptr + n, 0xEE, canary);
            }
            probe_rec r{array, ptr, count, size, align, next_id++, raw, n};
            live[ptr] = r;
            order.push_back(ptr);
            ++served;
            bytes_live += n;
            bytes_peak = std::max(bytes_peak, bytes_live);
            if (log.size() < 64)
                log.push_back(fmt("+%llu:%zu", (unsigned long long)r.id, n));
            count_ev("upstream_acquire");
            return ptr;
        }

        bool canaries_ok(const probe_rec& r) const
        {
            if (region)
            {
                // under ASan the surroundings are poisoned (any access traps); otherwise they carry 0xEE
                if (VF_ASAN || region_gap < canary)
                    return true;
                for (std::size_t i = 0; i < region_gap; ++i)
                    if ((unsigned char)(r.p - region_gap)[i] != 0xEE)
                        return false;
                return true;
            }
            for (std::size_t i = 0; i < canary; ++i)
                if ((unsigned char)(r.p - canary)[i] != 0xEE || (unsigned char)(r.p + r.bytes)[i] != 0xEE)
                    return false;
            return true;
        }

        void release(bool array, void* vp, std::size_t count, std::size_t size, std::size_t align) noexcept
        {
            ++releases;
            count_ev("upstream_release");
            auto it = live.find(static_cast<char*>(vp));
            if (it == live.end())
            {
                problem(prop, "upstream-release-unknown",
                        fmt("upstream %s: release of a pointer that is not a live upstream block (unknown or released twice); "
                            "shape (%s,%zu,%zu,%zu)",
                            name.c_str(), array ? "array" : "node", count, size, align));
                return;
            }
            auto r = it->second;
            if (r.array != array || r.count != count || r.size != size || r.align != align)
                problem(prop, "upstream-release-shape",
                        fmt("upstream %s: block #%llu acquired as (%s,%zu,%zu,%zu) released as (%s,%zu,%zu,%zu)", name.c_str(),
                            (unsigned long long)r.id, r.array ? "array" : "node", r.count, r.size, r.align,
                            array ? "array" : "node", count, size, align));
            if (check_lifo && !order.empty() && order.back() != r.p)
                problem(prop, "upstream-not-lifo",
                        fmt("upstream %s: block #%llu released while a later acquired block is still outstanding", name.c_str(),
                            (unsigned long long)r.id));
            if (!canaries_ok(r))
                problem(canary_prop, "upstream-canary",
                        fmt("upstream %s: bytes directly outside block #%llu (%zu bytes) were overwritten", name.c_str(),
                            (unsigned long long)r.id, r.bytes));
            order.erase(std::find(order.begin(), order.end(), r.p));
            bytes_live -= r.bytes;
            if (log.size() < 64)
                log.push_back(fmt("-%llu", (unsigned long long)r.id));
            live.erase(it);
            std::memset(r.p, 0xEF, r.bytes);
            if (region)
                VF_POISON(r.p, r.bytes);
            else
                std::free(r.raw);
        }

        void sweep_canaries()
        {
            for (auto& kv : live)
                if (!canaries_ok(kv.second))
                    problem(canary_prop, "upstream-canary",
                            fmt("upstream %s: bytes directly outside block #%llu (%zu bytes) were overwritten", name.c_str(),
                                (unsigned long long)kv.second.id, kv.second.bytes));
        }

        bool owns(const char* p, std::size_t n) const
        {
            auto it = live.upper_bound(const_cast<char*>(p));
            if (it == live.begin())
                return false;
            --it;
            return p >= it->first && p + n <= it->first + it->second.bytes;
        }
        bool balanced() const
        {
            return live.empty();
        }
        // frees everything still outstanding (used when a case is abandoned, so the harness itself does not leak)
        void drop_all()
        {
            if (!region)
                for (auto& kv : live)
                    std::free(kv.second.raw);
            live.clear();
            order.clear();
            bytes_live = 0;
        }
        ~probe_state()
        {
            drop_all();
            if (region)
            {
                VF_UNPOISON(region, region_bytes);
                std::free(region);
            }
        }
        probe_state()                              = default;
        probe_state(const probe_state&)            = delete;
        probe_state& operator=(const probe_state&) = delete;

        static void count_ev(const char* e)
        {
            vf::count(e);
        }
    };

    using probe_handle = std::shared_ptr<probe_state>;
    inline probe_handle make_probe(const char* name = "up", bool lifo = false, const char* prop = "C05")
    {
        auto s        = std::make_shared<probe_state>();
        s->name       = name;
        s->check_lifo = lifo;
        s->prop       = prop;
        return s;
    }

    // RawAllocator with the full interface
    struct probe_raw
    {
        using is_stateful = std::true_type;
        probe_handle s;
        probe_raw() : s(make_probe()) {}
        explicit probe_raw(probe_handle h) : s(std::move(h)) {}

        void* allocate_node(std::size_t size, std::size_t alignment)
        {
            return s->acquire(false, 1, size, alignment);
        }
        void* allocate_array(std::size_t count, std::size_t size, std::size_t alignment)
        {
            return s->acquire(true, count, size, alignment);
        }
        void deallocate_node(void* p, std::size_t size, std::size_t alignment) noexcept
        {
            s->release(false, p, 1, size, alignment);
        }
        void deallocate_array(void* p, std::size_t count, std::size_t size, std::size_t alignment) noexcept
        {
            s->release(true, p, count, size, alignment);
        }
        std::size_t max_node_size() const noexcept
        {
            return std::size_t(1) << 30;
        }
        std::size_t max_array_size() const noexcept
        {
            return std::size_t(1) << 30;
        }
        std::size_t max_alignment() const noexcept
        {
            return 4096;
        }
    };

    // RawAllocator with the minimal interface (only *_node): drives the traits' fallbacks
    struct probe_raw_min
    {
        using is_stateful = std::true_type;
        probe_handle s;
        probe_raw_min() : s(make_probe()) {}
        explicit probe_raw_min(probe_handle h) : s(std::move(h)) {}
        void* allocate_node(std::size_t size, std::size_t alignment)
        {
            return s->acquire(false, 1, size, alignment);
        }
        void deallocate_node(void* p, std::size_t size, std::size_t alignment) noexcept
        {
            s->release(false, p, 1, size, alignment);
        }
    };

    // BlockAllocator: blocks of constant or doubling size
    struct probe_block
    {
        probe_handle s;
        std::size_t  block_size;
        bool         grow;
        explicit probe_block(std::size_t bs, probe_handle h = make_probe("blk", true), bool g = true)
        : s(std::move(h)), block_size(bs), grow(g)
        {
        }
        fm::memory_block allocate_block()
        {
            auto p = s->acquire(true, block_size, 1, fm::detail::max_alignment);
            fm::memory_block b(p, block_size);
            if (grow)
                block_size *= 2;
            return b;
        }
        void deallocate_block(fm::memory_block b) noexcept
        {
            s->release(true, b.memory, b.size, 1, fm::detail::max_alignment);
        }
        std::size_t next_block_size() const noexcept
        {
            return block_size;
        }
    };

    // wraps a real block source and logs what passes through (LIFO, identity, exactly once)
    struct wrap_state
    {
        std::vector<fm::memory_block> out; // outstanding, in acquisition order
        long        acquired = 0, released = 0;
        bool        pending = false;
        std::string pend_key, pend_msg;
        void        check(const char* prop = "C05")
        {
            if (!pending)
                return;
            pending = false;
            viol(prop, std::string(prop) + "/" + cx().kind + "/" + pend_key, "%s", pend_msg.c_str());
        }
    };
    template <class B>
    struct probe_wrap : B
    {
        std::shared_ptr<wrap_state> w;
        template <class... Args>
        explicit probe_wrap(std::size_t bs, std::shared_ptr<wrap_state> st, Args&&... a)
        : B(bs, std::forward<Args>(a)...), w(std::move(st))
        {
        }
        probe_wrap(probe_wrap&&)            = default;
        probe_wrap& operator=(probe_wrap&&) = default;

        fm::memory_block allocate_block()
        {
            auto announced = B::next_block_size();
            auto b         = B::allocate_block();
            ++w->acquired;
            count("upstream_acquire");
            if (b.size != announced && !w->pending)
            {
                w->pending  = true;
                w->pend_key = "block-size-not-announced";
                w->pend_msg = fmt("block source handed out %zu bytes after announcing %zu", b.size, announced);
            }
            for (auto& o : w->out)
                if ((char*)b.memory < (char*)o.memory + o.size && (char*)o.memory < (char*)b.memory + b.size && !w->pending)
                {
                    w->pending  = true;
                    w->pend_key = "blocks-overlap";
                    w->pend_msg = "block source handed out a block overlapping an outstanding one";
                }
            w->out.push_back(b);
            return b;
        }
        void deallocate_block(fm::memory_block b) noexcept
        {
            ++w->released;
            count("upstream_release");
            if (w->out.empty() || w->out.back().memory != b.memory || w->out.back().size != b.size)
            {
                if (!w->pending)
                {
                    w->pending  = true;
                    w->pend_key = "upstream-not-lifo";
                    w->pend_msg = "block returned to the block source is not the most recently acquired outstanding block "
                                  "(or has a different size)";
                }
                for (auto i = w->out.begin(); i != w->out.end(); ++i)
                    if (i->memory == b.memory)
                    {
                        w->out.erase(i);
                        break;
                    }
            }
            else
                w->out.pop_back();
            B::deallocate_block(b);
        }
        bool owns(const char* p, std::size_t n) const
        {
            for (auto& o : w->out)
                if (p >= (char*)o.memory && p + n <= (char*)o.memory + o.size)
                    return true;
            return false;
        }
    };
} // namespace vf
