// C17(a): every corruption of a fence byte next to a low-level allocation is reported at deallocation, with the address of the
//         first corrupted byte; in-bounds writes never are.   (group "fence", plain flavour: the fence extent is measured by scanning)
// C16:    invalid releases the debug checks cover stop the program; one child process per bad call. (group "bad")
#include <sys/wait.h>

#include <foonathan/memory/heap_allocator.hpp>
#include <foonathan/memory/malloc_allocator.hpp>
#include <foonathan/memory/memory_pool.hpp>
#include <foonathan/memory/memory_stack.hpp>
#include <foonathan/memory/new_allocator.hpp>
#include <foonathan/memory/static_allocator.hpp>
#include <foonathan/memory/virtual_memory.hpp>

#include "common/core.hpp"

using namespace vf;
using namespace foonathan::memory;

namespace
{
    //=== C17 (a) ===//
    struct ovf_rec
    {
        const void* mem;
        std::size_t size;
        const void* at;
    };
    std::vector<ovf_rec> g_ovf;
    void                 ovf_handler(const void* m, std::size_t s, const void* w)
    {
        g_ovf.push_back({m, s, w});
    }

    template <class A>
    void fence_kind(const args& a, const char* name, std::size_t max_scan, bool is_virtual)
    {
        std::string kind = name;
        if (a.kind != "all" && a.kind != kind)
            return;
        using tr      = allocator_traits<A>;
        long nvalues  = a.num("values", 3);
        const auto FM = (unsigned char)debug_magic::fence_memory;
        for (long c = a.from; c < a.to; ++c)
            run_case(kind, c, [&] {
                auto r = case_rng(a.seed, a.group, kind, c);
                A    alloc;
                // node size class by case index: small sizes, sizes around powers of two, around the page size
                std::size_t size;
                switch (c % 6)
                {
                case 0:
                    size = r.range(1, 40);
                    break;
                case 1:
                    size = (std::size_t(1) << r.range(3, 12)) + r.below(3) - 1;
                    break;
                case 2:
                    size = 4096 + r.below(9) - 4;
                    break;
                case 3:
                    size = r.range(1, 4100);
                    break;
                case 4:
                    size = r.range(1, 16);
                    break;
                default:
                    size = r.range(100, 1000);
                    break;
                }
                std::size_t align = std::size_t(1) << r.below(5);
                set_buffer_overflow_handler(ovf_handler);
                // measure the fences of one allocation
                auto  p0    = static_cast<unsigned char*>(tr::allocate_node(alloc, size, align));
                std::size_t ff = 0, fb = 0;
                if (detail::debug_fence_size) // without fences the neighbourhood of the node need not even be mapped
                {
                    while (ff < max_scan && p0[-1 - std::ptrdiff_t(ff)] == FM)
                        ++ff;
                    while (fb < max_scan && p0[size + fb] == FM)
                        ++fb;
                }
                tr::deallocate_node(alloc, p0, size, align);
                op("%s node %zu/%zu: fence %zu bytes before, %zu after", name, size, align, ff, fb);
                if (!g_ovf.empty())
                {
                    g_ovf.clear();
                    viol("C17", "C17/" + kind + "/false-overflow-report", "overflow reported for an untouched allocation");
                }
                if (detail::debug_fence_size == 0)
                {
                    // control configuration: no fences; in-bounds writes, nothing may be reported
                    auto p = static_cast<unsigned char*>(tr::allocate_node(alloc, size, align));
                    std::memset(p, FM, size);
                    tr::deallocate_node(alloc, p, size, align);
                    if (!g_ovf.empty())
                        viol("C17", "C17/" + kind + "/false-overflow-report", "overflow reported although fences are disabled");
                    count("inbounds_checks");
                    flag("control");
                    return;
                }
                if (ff == 0 || fb == 0)
                    viol("C17", "C17/" + kind + "/no-fence", "fences are enabled but %s the node carries no fence bytes", ff == 0 ? "the memory before" : "the memory after");
                // offsets: all for small fences; for page-sized ones the edges plus a seeded sample
                std::vector<std::ptrdiff_t> offs;
                auto add_side = [&](bool front, std::size_t ext) {
                    for (std::size_t i = 0; i < ext; ++i)
                    {
                        bool take = ext <= 64 || i < 24 || i + 24 >= ext || r.chance(2);
                        if (take)
                            offs.push_back(front ? -1 - std::ptrdiff_t(i) : std::ptrdiff_t(size + i));
                    }
                };
                add_side(true, ff);
                add_side(false, fb);
                for (auto off : offs)
                {
                    bool edge = off == -1 || off == std::ptrdiff_t(size) || off == -std::ptrdiff_t(ff) || off == std::ptrdiff_t(size + fb - 1);
                    long nv   = edge && a.num("allvalues", 0) ? 255 : nvalues;
                    for (long vi = 0; vi < nv; ++vi)
                    {
                        unsigned char v;
                        if (nv == 255)
                            v = (unsigned char)(vi >= FM ? vi + 1 : vi);
                        else if (vi == 0)
                            v = 0x00;
                        else if (vi == 1)
                            v = (unsigned char)(FM - 1);
                        else
                            do
                                v = (unsigned char)r.below(256);
                            while (v == FM);
                        auto p = static_cast<unsigned char*>(tr::allocate_node(alloc, size, align));
                        // in-bounds writes of anything, including the fence value
                        std::memset(p, vi % 2 ? FM : 0x11, size);
                        p[off] = v;
                        g_ovf.clear();
                        tr::deallocate_node(alloc, p, size, align);
                        count("corruptions");
                        if (g_ovf.size() != 1 || g_ovf[0].mem != p || g_ovf[0].size != size || g_ovf[0].at != p + off)
                        {
                            auto n = g_ovf.size();
                            auto f = n ? g_ovf[0] : ovf_rec{nullptr, 0, nullptr};
                            g_ovf.clear();
                            viol("C17", "C17/" + kind + (n == 0 ? "/overflow-missed" : "/overflow-report-wrong"),
                                 "byte at offset %td of a %zu-byte node (fence %zu/%zu) set to 0x%02x: handler called %zu times; first report: node offset "
                                 "%td size %zu corrupted-byte offset %td",
                                 off, size, ff, fb, v, n, n ? (const unsigned char*)f.mem - p : 0, f.size, n ? (const unsigned char*)f.at - p : 0);
                        }
                    }
                }
                // two corruptions: the front one is reported first
                for (int k = 0; k < 8; ++k)
                {
                    auto o1 = -1 - std::ptrdiff_t(r.below(ff)), o2 = std::ptrdiff_t(size + r.below(fb));
                    auto p  = static_cast<unsigned char*>(tr::allocate_node(alloc, size, align));
                    p[o1]   = 0;
                    p[o2]   = 0;
                    // and a second one further inside the front fence: the lowest address is the first corrupted byte
                    auto o0 = o1;
                    if (ff > 1 && r.chance(50))
                    {
                        o0    = -1 - std::ptrdiff_t(r.below(ff));
                        p[o0] = 1;
                    }
                    auto lowest = std::min(o0, o1);
                    g_ovf.clear();
                    tr::deallocate_node(alloc, p, size, align);
                    count("double_corruptions");
                    if (g_ovf.empty() || g_ovf[0].at != p + lowest || g_ovf[0].mem != p)
                    {
                        auto n = g_ovf.size();
                        g_ovf.clear();
                        viol("C17", "C17/" + kind + "/first-corrupted-byte", "front fence corrupted at offset %td and back fence at %td: %zu reports, the first "
                             "does not name the lowest corrupted address", lowest, o2, n);
                    }
                }
                // in-bounds only: never reported
                for (int k = 0; k < 4; ++k)
                {
                    auto p = static_cast<unsigned char*>(tr::allocate_node(alloc, size, align));
                    std::memset(p, k % 2 ? FM : int(r.below(256)), size);
                    g_ovf.clear();
                    tr::deallocate_node(alloc, p, size, align);
                    count("inbounds_checks");
                    if (!g_ovf.empty())
                    {
                        g_ovf.clear();
                        viol("C17", "C17/" + kind + "/false-overflow-report", "overflow reported although only the %zu bytes of the node were written", size);
                    }
                }
                (void)is_virtual;
                flag("fence");
            });
    }

    //=== C16 ===//
    enum outcome
    {
        o_handler,
        o_abort,
        o_fatal,
        o_continued,
        o_prefix_failed,
        o_na
    };
    const char* outcome_name(int o)
    {
        static const char* n[] = {"handler", "abort", "other-fatal-signal", "continued", "prefix-failed", "not-applicable"};
        return n[o];
    }

    // runs f in a child; f performs a valid prefix, calls armed() and then the bad call
    template <class F>
    int in_child(F&& f)
    {
        fflush(nullptr);
        pid_t pid = fork();
        if (pid == 0)
        {
            // child: handler = exit 77; leaks at exit are not the subject
            struct rlimit rl = {5, 5};
            setrlimit(RLIMIT_CPU, &rl);
            signal(SIGABRT, SIG_DFL);
            signal(SIGSEGV, SIG_DFL);
            signal(SIGBUS, SIG_DFL);
            set_leak_handler([](const allocator_info&, std::ptrdiff_t) {});
            f();
            _exit(0);
        }
        int st = 0;
        waitpid(pid, &st, 0);
        if (WIFEXITED(st))
        {
            int e = WEXITSTATUS(st);
            return e == 77 ? o_handler : e == 78 ? o_prefix_failed : e == 79 ? o_na : o_continued;
        }
        if (WIFSIGNALED(st))
            return WTERMSIG(st) == SIGABRT ? o_abort : o_fatal;
        return o_fatal;
    }
    // from here on an invalid-pointer report ends the child with 77; before, it means the *valid prefix* was reported (78)
    void arm_handler()
    {
        set_invalid_pointer_handler([](const allocator_info&, const void*) { _exit(77); });
    }
    void prefix_handler()
    {
        set_invalid_pointer_handler([](const allocator_info&, const void*) { _exit(78); });
    }

    long hist[6];

    void judge(const std::string& kind, const char* what, int o)
    {
        ++hist[o];
        count((std::string("outcome_") + outcome_name(o)).c_str());
        if (o == o_continued)
            viol("C16", "C16/" + kind + "/" + what + "/missed", "%s on %s was not reported and did not stop the program", what, kind.c_str());
        // a wild crash is not "stops the program before allocator state is changed": the bad value was used, whatever happened first
        // (on the pinned tree every covered class ends in the handler or in a deliberate abort)
        if (o == o_fatal)
            viol("C16", "C16/" + kind + "/" + what + "/crashed-unreported",
                 "%s on %s was not reported: the program died of a fatal signal other than a deliberate abort", what, kind.c_str());
        if (o == o_prefix_failed)
            viol("C16", "C16/" + kind + "/" + what + "/false-invalid-pointer-report", "the valid history before the bad call was reported");
    }

    template <class PT>
    void bad_pool(const args& a, const char* tname)
    {
        std::string kind = std::string("pool<") + tname + ">";
        if (a.kind != "all" && a.kind != kind)
            return;
        using P                 = memory_pool<PT>;
        constexpr bool is_small = std::is_same<PT, small_node_pool>::value;
        for (long c = a.from; c < a.to; ++c)
            run_case(kind, c, [&] {
                auto        r  = case_rng(a.seed, a.group, kind, c);
                std::size_t ns = is_small ? r.range(1, 24) : r.range(8, 48);
                std::size_t nn = r.range(8, 700);
                // variants: the class of the bad call
                static const char* small_classes[] = {"foreign-pointer", "chunk-header", "before-first-chunk", "after-last-chunk", "misaligned",
                                                      "one-node-past-chunk-end"};
                static const char* dbl_classes[]   = {"double-free-first", "double-free-last", "double-free-most-recent", "double-free-middle",
                                                      "double-free-list-neighbour-of-most-recent"};
                std::vector<const char*> classes;
                if (is_small)
                    for (auto s : small_classes)
                        classes.push_back(s);
#if FOONATHAN_MEMORY_DEBUG_DOUBLE_DEALLOC_CHECK
                for (auto s : dbl_classes)
                    classes.push_back(s);
#else
                (void)dbl_classes;
#endif
                if (classes.empty())
                {
                    op("no check of this pool type is active in this configuration");
                    return;
                }
                auto cls  = classes[std::size_t(c) % classes.size()];
                auto seed = r.next();
                op("%s node_size=%zu nodes=%zu class=%s", kind.c_str(), ns, nn, cls);
                std::string cl = cls;
                int o = in_child([&] {
                    rng cr(seed);
                    prefix_handler();
                    // (32 bytes of slack: less than a chunk header plus a node, so no further chunk is made of it, but the address one
                    //  node past the last node of the last chunk is still inside the block)
                    P    pool(ns, P::min_block_size(ns, nn) + (cl == "one-node-past-chunk-end" ? 32 : 0));
                    auto node = pool.node_size();
                    if (cl == "one-node-past-chunk-end")
                    {
                        // take every node: the highest address is the last node of the last chunk
                        std::vector<char*> all;
                        while (pool.capacity_left() >= node)
                            all.push_back(static_cast<char*>(pool.allocate_node()));
                        auto last = *std::max_element(all.begin(), all.end());
                        for (std::size_t i = 0; i < all.size(); ++i)
                            if (cr.chance(50) && all[i] != last)
                                pool.deallocate_node(all[i]);
                        arm_handler();
                        pool.deallocate_node(last + node); // not a node of the pool, directly behind its last one
                        pool.allocate_node();
                        _exit(0);
                    }
                    // valid prefix: allocate, release some in random order, allocate again; may grow
                    std::vector<char*> live, freed;
                    int steps = int(cr.range(5, 400));
                    for (int i = 0; i < steps; ++i)
                    {
                        if (live.empty() || cr.chance(60))
                            live.push_back(static_cast<char*>(pool.allocate_node()));
                        else
                        {
                            auto k = cr.below(live.size());
                            pool.deallocate_node(live[k]);
                            freed.push_back(live[k]);
                            live.erase(live.begin() + long(k));
                        }
                    }
                    if (live.size() < 3)
                        for (int i = 0; i < 3; ++i)
                            live.push_back(static_cast<char*>(pool.allocate_node()));
                    // re-allocations may have handed freed nodes out again: what is free now?
                    std::sort(live.begin(), live.end());
                    std::vector<char*> free_now;
                    for (auto f : freed)
                        if (!std::binary_search(live.begin(), live.end(), f) && std::find(free_now.begin(), free_now.end(), f) == free_now.end())
                            free_now.push_back(f);
                    if (free_now.size() < 3)
                    {
                        // make three free nodes (not neighbours of each other necessarily)
                        for (int i = 0; i < 3 && live.size() > 1; ++i)
                        {
                            auto k = cr.below(live.size());
                            pool.deallocate_node(live[k]);
                            free_now.push_back(live[k]);
                            live.erase(live.begin() + long(k));
                        }
                    }
                    char* most_recent = free_now.back();
                    auto  sorted      = free_now;
                    std::sort(sorted.begin(), sorted.end());
                    char* bad = nullptr;
                    static char foreign[256];
                    auto lowest  = live.front() < sorted.front() ? live.front() : sorted.front();
                    auto highest = live.back() > sorted.back() ? live.back() : sorted.back();
                    if (cl == "foreign-pointer")
                        bad = foreign + 64;
                    else if (cl == "chunk-header")
                        bad = lowest - 1 - cr.below(8); // directly in front of the lowest node ever seen: chunk header bytes
                    else if (cl == "before-first-chunk")
                        bad = lowest - 4096;
                    else if (cl == "after-last-chunk")
                        bad = highest + node * 300 + 64;
                    else if (cl == "misaligned")
                    {
                        if (node == 1)
                            _exit(79); // every address is a node boundary: nothing to test
                        bad = live[cr.below(live.size())] + cr.range(1, node - 1);
                    }
                    else if (cl == "double-free-first")
                        bad = sorted.front();
                    else if (cl == "double-free-last")
                        bad = sorted.back();
                    else if (cl == "double-free-most-recent")
                        bad = most_recent;
                    else if (cl == "double-free-list-neighbour-of-most-recent")
                    {
                        // the free node next to the most recently freed one in address order (its list neighbour in an ordered list)
                        auto it = std::find(sorted.begin(), sorted.end(), most_recent);
                        bad     = it != sorted.begin() && (cr.chance(50) || it + 1 == sorted.end()) ? *(it - 1) : it + 1 != sorted.end() ? *(it + 1) : *(it - 1);
                    }
                    else
                        bad = sorted[sorted.size() / 2];
                    if (cl == "before-first-chunk" || cl == "after-last-chunk")
                    {
                        // the debug fill writes to the pointer before any check: only use mapped memory
                        static char far_lo[64];
                        char        far_hi[64]; // the stack lies above the heap
                        bad = cl == "before-first-chunk" ? (far_lo < lowest ? far_lo : nullptr) : (far_hi > highest ? far_hi : nullptr);
                        if (!bad)
                            _exit(79); // address space layout does not provide such a pointer
                    }
                    arm_handler();
                    pool.deallocate_node(bad);
                    // continued: a following valid operation, so that a corrupted list has a chance to show
                    pool.allocate_node();
                });
                judge(kind, cls, o);
                flag("bad-call");
            });
    }

    // block source whose later blocks lie at lower addresses (any order of addresses is legitimate for a block source)
    struct descending_blocks
    {
        std::size_t bs, off;
        static char* buffer()
        {
            alignas(64) static char b[1 << 16];
            return b;
        }
        explicit descending_blocks(std::size_t block_size) : bs(block_size), off(1 << 16) {}
        memory_block allocate_block()
        {
            if (off < bs)
                throw std::bad_alloc();
            off -= bs;
            return {buffer() + off, bs};
        }
        void deallocate_block(memory_block b) noexcept
        {
            off += b.size;
        }
        std::size_t next_block_size() const noexcept
        {
            return bs;
        }
    };

    template <class Stack>
    void stale_marker_body(rng& cr, Stack& st, bool drop)
    {
        for (int i = 0, n = int(cr.below(10)); i < n; ++i)
            st.allocate(cr.range(1, 40), 8);
        auto m1 = st.top();
        if (drop)
            for (int i = 0; i < 30; ++i)
                st.allocate(100, 8); // crosses into further blocks
        else
            st.allocate(cr.range(32, 64), 8);
        auto m2 = st.top();
        st.unwind(m1);
        if (cr.chance(50))
            st.allocate(8, 8); // still below m2
        arm_handler();
        st.unwind(m2); // above the current top
    }

    void bad_stack(const args& a)
    {
        std::string kind = "stack";
        if (a.kind != "all" && a.kind != kind)
            return;
        for (long c = a.from; c < a.to; ++c)
            run_case(kind, c, [&] {
                auto r    = case_rng(a.seed, a.group, kind, c);
                bool drop = c % 3 != 0;
                bool desc = c % 3 == 2; // the dropped blocks lie below the current one
                auto seed = r.next();
                auto cls  = desc ? "stale-marker-dropped-block-lower-address" : drop ? "stale-marker-dropped-block" : "stale-marker-same-block";
                op("stack class=%s", cls);
                int o = in_child([&] {
                    rng cr(seed);
                    prefix_handler();
                    if (desc)
                    {
                        memory_stack<descending_blocks> st(512);
                        stale_marker_body(cr, st, true);
                    }
                    else
                    {
                        memory_stack<> st(1024);
                        stale_marker_body(cr, st, drop);
                    }
                });
                judge(kind, cls, o);
                flag("bad-call");
            });
    }

    // valid use of a static_block_allocator up to and beyond exhaustion: the failed request must not make later valid releases "invalid"
    void valid_static_exhaustion(const args& a)
    {
        std::string kind = "static-exhaustion-valid";
        if (a.kind != "all" && a.kind != kind)
            return;
        for (long c = a.from; c < a.to; ++c)
            run_case(kind, c, [&] {
                auto r = case_rng(a.seed, a.group, kind, c);
                static static_allocator_storage<4096> storage;
                std::size_t                           bs = std::size_t(256) << r.below(3);
                static_block_allocator                b(bs, storage);
                std::vector<memory_block>             v;
                false_report_guard                    frg;
                op("static_block_allocator(%zu) over 4096 bytes: allocate until out_of_fixed_memory, release in LIFO order, repeat", bs);
                for (int round = 0; round < 3; ++round)
                {
                    int failures = 0;
                    for (int i = 0; i < 40; ++i)
                    {
                        if (r.chance(65))
                        {
                            try
                            {
                                v.push_back(b.allocate_block());
                            }
                            catch (out_of_fixed_memory&)
                            {
                                ++failures;
                                count("out_of_memory_thrown");
                            }
                        }
                        else if (!v.empty())
                        {
                            b.deallocate_block(v.back());
                            v.pop_back();
                            frg.check("a valid LIFO deallocate_block");
                        }
                    }
                    while (!v.empty())
                    {
                        b.deallocate_block(v.back());
                        v.pop_back();
                        frg.check("a valid LIFO deallocate_block");
                    }
                    // everything returned: the whole storage is available again
                    std::size_t n = 0;
                    try
                    {
                        for (;;)
                        {
                            v.push_back(b.allocate_block());
                            ++n;
                        }
                    }
                    catch (out_of_fixed_memory&)
                    {
                    }
                    if (n != 4096 / bs)
                        viol("C04", "C04/" + kind + "/capacity-lost", "after %d failed requests and complete release the storage serves %zu blocks instead of %zu",
                             failures, n, 4096 / bs);
                    while (!v.empty())
                    {
                        b.deallocate_block(v.back());
                        v.pop_back();
                        frg.check("a valid LIFO deallocate_block");
                    }
                }
                flag("bad-call");
            });
    }

    void bad_blocks(const args& a)
    {
        std::string kind = "block-source";
        if (a.kind != "all" && a.kind != kind)
            return;
        for (long c = a.from; c < a.to; ++c)
            run_case(kind, c, [&] {
                static const char* classes[] = {"static-out-of-order", "virtual-out-of-order", "fixed-deallocate-twice", "static-foreign-block"};
                auto cls = classes[c % 4];
                auto r   = case_rng(a.seed, a.group, kind, c);
                auto seed = r.next();
                op("block source class=%s", cls);
                std::string cl = cls;
                int o = in_child([&] {
                    rng cr(seed);
                    prefix_handler();
                    if (cl == "static-out-of-order" || cl == "static-foreign-block")
                    {
                        static static_allocator_storage<8192> storage;
                        static_block_allocator                b(1024, storage);
                        std::vector<memory_block>             v;
                        for (int i = 0, n = int(cr.range(2, 6)); i < n; ++i)
                            v.push_back(b.allocate_block());
                        // valid: LIFO
                        b.deallocate_block(v.back());
                        v.pop_back();
                        v.push_back(b.allocate_block());
                        arm_handler();
                        if (cl == "static-out-of-order")
                            b.deallocate_block(v[cr.below(v.size() - 1)]);
                        else
                        {
                            static char other[1024];
                            b.deallocate_block(memory_block(other, 1024));
                        }
                    }
                    else if (cl == "virtual-out-of-order")
                    {
                        virtual_block_allocator   b(virtual_memory_page_size, 6);
                        std::vector<memory_block> v;
                        for (int i = 0, n = int(cr.range(2, 5)); i < n; ++i)
                            v.push_back(b.allocate_block());
                        b.deallocate_block(v.back());
                        v.pop_back();
                        v.push_back(b.allocate_block());
                        arm_handler();
                        b.deallocate_block(v[cr.below(v.size() - 1)]);
                    }
                    else
                    {
                        fixed_block_allocator<> b(512);
                        auto                    blk = b.allocate_block();
                        b.deallocate_block(blk);
                        auto blk2 = b.allocate_block();
                        b.deallocate_block(blk2);
                        static char other[512];
                        arm_handler();
                        b.deallocate_block(memory_block(other, 512)); // nothing is outstanding
                    }
                });
                judge(kind, cls, o);
                flag("bad-call");
            });
    }
    //=== C15: the stateless low-level allocators report their process-wide net once at exit ===//
    int  g_leak_fd = -1;
    void leak_to_fd(const allocator_info& info, std::ptrdiff_t amount)
    {
        char b[200];
        int  n = snprintf(b, sizeof b, "LEAK %s %td\n", info.name ? info.name : "?", amount);
        if (g_leak_fd >= 0 && n > 0)
        {
            auto w = ::write(g_leak_fd, b, std::size_t(n));
            (void)w;
        }
    }
    template <class A>
    void exit_leak_kind(const args& a, const char* name, const char* expect_name)
    {
        std::string kind = std::string("exit-leak/") + name;
        if (a.kind != "all" && a.kind != kind)
            return;
        for (long c = a.from; c < a.to; ++c)
            run_case(kind, c, [&] {
                auto r        = case_rng(a.seed, a.group, kind, c);
                bool balanced = c % 3 == 2;
                auto seed     = r.next();
                // what the child will do, computed here as well: net bytes requested and not released
                std::ptrdiff_t net = 0;
                {
                    rng cr(seed);
                    int n = int(cr.range(1, 30));
                    for (int i = 0; i < n; ++i)
                    {
                        auto size = cr.range(1, 3000);
                        bool keep = !balanced && cr.chance(40);
                        if (keep)
                            net += std::ptrdiff_t(size);
                    }
                    if (!balanced && net == 0)
                        net = 0;
                }
                op("child process: %s, %s history (net %td bytes), report expected at exit", name, balanced ? "balanced" : "leaking", net);
                int fds[2];
                if (pipe(fds) != 0)
                    return;
                fflush(nullptr);
                pid_t pid = fork();
                if (pid == 0)
                {
                    close(fds[0]);
                    g_leak_fd = fds[1];
                    set_leak_handler(leak_to_fd);
                    signal(SIGABRT, SIG_DFL);
                    signal(SIGSEGV, SIG_DFL);
                    using tr = allocator_traits<A>;
                    A   alloc;
                    rng cr(seed);
                    int n = int(cr.range(1, 30));
                    for (int i = 0; i < n; ++i)
                    {
                        auto  size = cr.range(1, 3000);
                        bool  keep = !balanced && cr.chance(40);
                        void* p    = tr::allocate_node(alloc, size, 8);
                        std::memset(p, 1, size);
                        if (!keep)
                            tr::deallocate_node(alloc, p, size, 8);
                    }
                    std::exit(0);
                }
                close(fds[1]);
                std::string out;
                char        buf[256];
                for (;;)
                {
                    auto got = ::read(fds[0], buf, sizeof buf);
                    if (got <= 0)
                        break;
                    out.append(buf, std::size_t(got));
                }
                close(fds[0]);
                int st = 0;
                waitpid(pid, &st, 0);
                count("exit_children");
                if (!WIFEXITED(st) || WEXITSTATUS(st) != 0)
                    viol("C15", "C15/" + kind + "/child-died", "the child process did not exit normally (status 0x%x)", st);
                // parse
                std::vector<std::pair<std::string, long>> reps;
                std::size_t pos = 0;
                while (pos < out.size())
                {
                    auto eol  = out.find('\n', pos);
                    auto line = out.substr(pos, eol == std::string::npos ? std::string::npos : eol - pos);
                    pos       = eol == std::string::npos ? out.size() : eol + 1;
                    if (line.rfind("LEAK ", 0) == 0)
                    {
                        auto sp = line.rfind(' ');
                        reps.push_back({line.substr(5, sp - 5), atol(line.c_str() + sp + 1)});
                    }
                }
#if FOONATHAN_MEMORY_DEBUG_LEAK_CHECK
                if (net == 0)
                {
                    if (!reps.empty())
                        viol("C15", "C15/" + kind + "/reported-although-balanced", "a balanced history was reported at exit: %s %ld", reps[0].first.c_str(),
                             reps[0].second);
                    count("silent_exits_checked");
                }
                else
                {
                    if (reps.size() != 1)
                        viol("C15", "C15/" + kind + (reps.empty() ? "/leak-not-reported" : "/reported-more-than-once"),
                             "%td bytes were never deallocated; the leak handler ran %zu times at exit", net, reps.size());
                    if (reps[0].first.find(expect_name) == std::string::npos)
                        viol("C15", "C15/" + kind + "/wrong-allocator-named", "the report names '%s'", reps[0].first.c_str());
                    // with fences the low-level allocators count the fence bytes too: exact only without them
                    bool exact = detail::debug_fence_size == 0 || std::string(name) == "virtual_memory_allocator";
                    if (exact ? reps[0].second != net : reps[0].second < net)
                        viol("C15", "C15/" + kind + "/leak-amount", "net %td bytes were not deallocated, the report at exit says %ld", net, reps[0].second);
                    count("exit_reports_checked");
                    flag("leak");
                }
#else
                if (!reps.empty())
                    viol("C15", "C15/" + kind + "/reported-although-disabled", "leak handler called at exit although leak checking is disabled");
#endif
                flag("bad-call");
            });
    }
} // namespace

int main(int argc, char** argv)
{
    auto a = parse_args(argc, argv, "h_debug");
    install_recording_handlers();
    if (a.group == "fence")
    {
        fence_kind<heap_allocator>(a, "heap_allocator", 16, false);
        fence_kind<malloc_allocator>(a, "malloc_allocator", 16, false);
        fence_kind<new_allocator>(a, "new_allocator", 16, false);
        fence_kind<virtual_memory_allocator>(a, "virtual_memory_allocator", virtual_memory_page_size, true);
    }
    else if (a.group == "exitleak")
    {
        exit_leak_kind<heap_allocator>(a, "heap_allocator", "heap_allocator");
        exit_leak_kind<malloc_allocator>(a, "malloc_allocator", "malloc_allocator");
        exit_leak_kind<new_allocator>(a, "new_allocator", "new_allocator");
        exit_leak_kind<virtual_memory_allocator>(a, "virtual_memory_allocator", "virtual_memory_allocator");
    }
    else
    {
#if FOONATHAN_MEMORY_DEBUG_POINTER_CHECK
        bad_pool<node_pool>(a, "node");
        bad_pool<array_pool>(a, "array");
        bad_pool<small_node_pool>(a, "small");
        bad_stack(a);
        bad_blocks(a);
        valid_static_exhaustion(a);
#endif
    }
    finish();
    return 0;
}
