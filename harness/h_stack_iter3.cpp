#include "common/stack_engine.hpp"
void run_iter_3(const vf::args& a)
{
    vf_stack::run_iter_sources<3>(a);
}
