// C13: thread_safe_allocator serialises all access to the wrapped allocator      (groups "mutex", "real", "stateless")
// C14: each live thread has its own temporary stack; stacks are reused; freed at exit (groups "sched", "free", "exit")
#include <sys/wait.h>

#include <atomic>
#include <chrono>
#include <condition_variable>
#include <mutex>
#include <thread>

#include <foonathan/memory/allocator_storage.hpp>
#include <foonathan/memory/detail/verif_hooks.hpp>
#include <foonathan/memory/heap_allocator.hpp>
#include <foonathan/memory/malloc_allocator.hpp>
#include <foonathan/memory/memory_pool.hpp>
#include <foonathan/memory/memory_pool_collection.hpp>
#include <foonathan/memory/memory_stack.hpp>
#include <foonathan/memory/new_allocator.hpp>
#include <foonathan/memory/temporary_allocator.hpp>
#include <foonathan/memory/threading.hpp>
#include <foonathan/memory/virtual_memory.hpp>

#include "common/prng.hpp"
#include "common/report.hpp"

using namespace vf;
using namespace foonathan::memory;

namespace
{
    std::atomic<int> next_tid{1};
    int              my_tid()
    {
        thread_local int id = next_tid.fetch_add(1);
        return id;
    }

    //=== C13: ownership monitor ===//
    struct monitor
    {
        std::atomic<int>  owner{0};       // thread that holds the instrumented mutex
        std::atomic<long> acquisitions{0}, contended{0};
        std::atomic<int>  inflight{0};    // threads inside the instrumented allocator
        std::atomic<long> entries{0}, unlocked_entries{0}, overlaps{0};
        std::atomic<long> per_member[12];
        std::atomic<int>  first_bad_member{-1};
        bool              judge_owner = true; // false when a std::mutex guards the allocator (owner unknown)
        // refusals: the wrapped allocator throws now and then from its throwing members; afterwards the mutex must be free again
        std::atomic<long> refusals{0}, held_after_exception{0}, try_gave_up{0};
        std::atomic<void*> held_mutex{nullptr};
        void reset()
        {
            refusals = held_after_exception = try_gave_up = 0;
            held_mutex = nullptr;
            owner = 0;
            acquisitions = contended = 0;
            inflight = 0;
            entries = unlocked_entries = overlaps = 0;
            for (auto& m : per_member)
                m = 0;
            first_bad_member = -1;
        }
    };
    monitor& M()
    {
        static monitor m;
        return m;
    }
    const char* member_name(int i)
    {
        static const char* n[] = {"allocate_node", "allocate_array", "deallocate_node", "deallocate_array", "try_allocate_node", "try_allocate_array",
                                  "try_deallocate_node", "try_deallocate_array", "max_node_size", "max_array_size", "max_alignment", "?"};
        return n[i];
    }

    struct mon_mutex
    {
        std::mutex m;
        void       lock()
        {
            if (!m.try_lock())
            {
                M().contended.fetch_add(1, std::memory_order_relaxed);
                m.lock();
            }
            M().owner.store(my_tid());
            M().held_mutex.store(this);
            M().acquisitions.fetch_add(1, std::memory_order_relaxed);
        }
        // (Lockable, like std::mutex; the library is expected to need lock()/unlock() only)
        bool try_lock()
        {
            if (!m.try_lock())
                return false;
            M().owner.store(my_tid());
            M().held_mutex.store(this);
            M().acquisitions.fetch_add(1, std::memory_order_relaxed);
            return true;
        }
        void unlock()
        {
            M().owner.store(0);
            m.unlock();
        }
    };
    struct refusal : std::bad_alloc
    {
    };
    // called by a thread that has just caught an exception out of the wrapper: it must not hold the mutex any more
    // (if it does, the harness releases it so that the run can go on and be reported)
    inline void after_exception()
    {
        auto& m = M();
        m.refusals.fetch_add(1, std::memory_order_relaxed);
        if (m.judge_owner && m.owner.load() == my_tid())
        {
            m.held_after_exception.fetch_add(1);
            static_cast<mon_mutex*>(m.held_mutex.load())->unlock();
        }
    }

    thread_local rng* t_rng = nullptr;

    // every member checks on entry that the guarding mutex is held by the calling thread and that nobody else is inside,
    // then lingers: the one place where a missing lock in the wrapper becomes an overlap
    struct mon_alloc
    {
        using is_stateful = std::true_type;
        int*        plain_counter; // deliberately unsynchronised state: what the mutex is there to protect (TSan sees a race if unlocked)
        explicit mon_alloc(int* c) : plain_counter(c) {}

        void enter(int member) const
        {
            auto& m = M();
            m.entries.fetch_add(1, std::memory_order_relaxed);
            m.per_member[member].fetch_add(1, std::memory_order_relaxed);
            if (m.judge_owner && m.owner.load() != my_tid())
            {
                m.unlocked_entries.fetch_add(1);
                int exp = -1;
                m.first_bad_member.compare_exchange_strong(exp, member);
            }
            if (m.inflight.fetch_add(1) != 0)
            {
                m.overlaps.fetch_add(1);
                int exp = -1;
                m.first_bad_member.compare_exchange_strong(exp, member);
            }
            ++*plain_counter;
            // linger
            if (t_rng)
            {
                auto x = t_rng->below(100);
                if (x < 50)
                    std::this_thread::yield();
                else if (x < 60)
                    std::this_thread::sleep_for(std::chrono::microseconds(t_rng->below(60)));
                else
                    for (volatile int i = 0; i < int(t_rng->below(200)); ++i)
                    {
                    }
            }
            ++*plain_counter;
            m.inflight.fetch_sub(1);
        }
        void* allocate_node(std::size_t size, std::size_t)
        {
            enter(0);
            if (M().judge_owner && t_rng && t_rng->chance(4))
                throw refusal();
            return std::malloc(size);
        }
        void* allocate_array(std::size_t c, std::size_t size, std::size_t)
        {
            enter(1);
            if (M().judge_owner && t_rng && t_rng->chance(4))
                throw refusal();
            return std::malloc(c * size);
        }
        void deallocate_node(void* p, std::size_t, std::size_t) noexcept
        {
            enter(2);
            std::free(p);
        }
        void deallocate_array(void* p, std::size_t, std::size_t, std::size_t) noexcept
        {
            enter(3);
            std::free(p);
        }
        void* try_allocate_node(std::size_t size, std::size_t) noexcept
        {
            enter(4);
            return std::malloc(size);
        }
        void* try_allocate_array(std::size_t c, std::size_t size, std::size_t) noexcept
        {
            enter(5);
            return std::malloc(c * size);
        }
        bool try_deallocate_node(void* p, std::size_t, std::size_t) noexcept
        {
            enter(6);
            std::free(p);
            return true;
        }
        bool try_deallocate_array(void* p, std::size_t, std::size_t, std::size_t) noexcept
        {
            enter(7);
            std::free(p);
            return true;
        }
        std::size_t max_node_size() const
        {
            enter(8);
            return 1 << 20;
        }
        std::size_t max_array_size() const
        {
            enter(9);
            return 1 << 20;
        }
        std::size_t max_alignment() const
        {
            enter(10);
            return 16;
        }
    };

    // the same allocator as an *empty* class that declares itself stateful (its state lives elsewhere, e.g. in a global arena):
    // is_stateful, not emptiness, decides whether the wrapper needs its mutex
    struct mon_alloc_empty
    {
        using is_stateful = std::true_type;
        static int*& counter()
        {
            static int* c = nullptr;
            return c;
        }
        mon_alloc impl() const
        {
            return mon_alloc(counter());
        }
        void* allocate_node(std::size_t size, std::size_t al)
        {
            return impl().allocate_node(size, al);
        }
        void* allocate_array(std::size_t c, std::size_t size, std::size_t al)
        {
            return impl().allocate_array(c, size, al);
        }
        void deallocate_node(void* p, std::size_t size, std::size_t al) noexcept
        {
            impl().deallocate_node(p, size, al);
        }
        void deallocate_array(void* p, std::size_t c, std::size_t size, std::size_t al) noexcept
        {
            impl().deallocate_array(p, c, size, al);
        }
        void* try_allocate_node(std::size_t size, std::size_t al) noexcept
        {
            return impl().try_allocate_node(size, al);
        }
        void* try_allocate_array(std::size_t c, std::size_t size, std::size_t al) noexcept
        {
            return impl().try_allocate_array(c, size, al);
        }
        bool try_deallocate_node(void* p, std::size_t size, std::size_t al) noexcept
        {
            return impl().try_deallocate_node(p, size, al);
        }
        bool try_deallocate_array(void* p, std::size_t c, std::size_t size, std::size_t al) noexcept
        {
            return impl().try_deallocate_array(p, c, size, al);
        }
        std::size_t max_node_size() const
        {
            return impl().max_node_size();
        }
        std::size_t max_array_size() const
        {
            return impl().max_array_size();
        }
        std::size_t max_alignment() const
        {
            return impl().max_alignment();
        }
    };
    static_assert(std::is_empty<mon_alloc_empty>::value, "");

    // one thread's work on a (wrapped) allocator S
    template <class S>
    void hammer(S& s, std::uint64_t seed, int ops, bool use_proxy)
    {
        rng r(seed);
        t_rng = &r;
        using tr  = allocator_traits<S>;
        using ctr = composable_allocator_traits<S>;
        std::vector<std::pair<void*, int>> mine;
        for (int i = 0; i < ops; ++i)
        {
            switch (r.below(use_proxy ? 13 : 11))
            {
            case 0:
                try
                {
                    mine.push_back({tr::allocate_node(s, 24, 8), 0});
                }
                catch (std::bad_alloc&)
                {
                    after_exception();
                }
                break;
            case 1:
                try
                {
                    // (one-element arrays too: an array of one is still an array request)
                    if (r.chance(35))
                        mine.push_back({tr::allocate_array(s, 1, 24, 8), 4});
                    else
                        mine.push_back({tr::allocate_array(s, 3, 8, 8), 1});
                }
                catch (std::bad_alloc&)
                {
                    after_exception();
                }
                break;
            case 2:
                // the wrapped allocator's try_ members always succeed: a null result is the wrapper giving up (e.g. not waiting for the mutex)
                if (void* p = ctr::try_allocate_node(s, 24, 8))
                    mine.push_back({p, 2});
                else
                    M().try_gave_up.fetch_add(1);
                break;
            case 3:
                if (void* p = ctr::try_allocate_array(s, 3, 8, 8))
                    mine.push_back({p, 3});
                else
                    M().try_gave_up.fetch_add(1);
                break;
            case 4:
            case 5:
            case 6:
                if (!mine.empty())
                {
                    auto e = mine.back();
                    mine.pop_back();
                    if (e.second == 0)
                        tr::deallocate_node(s, e.first, 24, 8);
                    else if (e.second == 1)
                        tr::deallocate_array(s, e.first, 3, 8, 8);
                    else if (e.second == 4)
                        tr::deallocate_array(s, e.first, 1, 24, 8);
                    else if (!(e.second == 2 ? ctr::try_deallocate_node(s, e.first, 24, 8) : ctr::try_deallocate_array(s, e.first, 3, 8, 8)))
                    {
                        M().try_gave_up.fetch_add(1);
                        std::free(e.first);
                    }
                }
                break;
            case 7:
                (void)tr::max_node_size(s);
                break;
            case 8:
                (void)tr::max_array_size(s);
                break;
            case 9:
                (void)tr::max_alignment(s);
                break;
            case 10:
                std::this_thread::yield();
                break;
            default:
            {
                // the lock() proxy: the wrapped allocator is used directly while the proxy is alive
                auto  l = s.lock();
                void* p = nullptr;
                try
                {
                    p = l->allocate_node(16, 8);
                }
                catch (std::bad_alloc&)
                {
                    M().refusals.fetch_add(1, std::memory_order_relaxed); // the proxy still holds the lock, rightly
                    break;
                }
                if (r.chance(50))
                {
                    // the proxy handed on (stored in another object, returned from a function): the lock goes with it
                    auto l2 = std::move(l);
                    l2->deallocate_node(p, 16, 8);
                    (void)l2->max_node_size();
                    auto l3 = std::move(l2);
                    (void)l3->max_alignment();
                }
                else
                {
                    l->deallocate_node(p, 16, 8);
                    (void)l->max_node_size();
                }
                break;
            }
            }
        }
        for (auto& e : mine)
            if (e.second == 0 || e.second == 2)
                tr::deallocate_node(s, e.first, 24, 8);
            else if (e.second == 4)
                tr::deallocate_array(s, e.first, 1, 24, 8);
            else
                tr::deallocate_array(s, e.first, 3, 8, 8);
        t_rng = nullptr;
    }

    template <class S>
    void run_threads(S& s, int nthreads, int ops, std::uint64_t seed, bool proxy)
    {
        std::vector<std::thread> th;
        std::atomic<int>         ready{0};
        for (int t = 0; t < nthreads; ++t)
            th.emplace_back([&, t] {
                ready.fetch_add(1);
                while (ready.load() < nthreads)
                    std::this_thread::yield();
                hammer(s, seed * 1315423911u + std::uint64_t(t), ops, proxy);
            });
        for (auto& t : th)
            t.join();
    }

    void judge_monitor(const std::string& kind, bool need_contention)
    {
        auto& m = M();
        count("monitored_entries", m.entries.load());
        count("lock_acquisitions", m.acquisitions.load());
        count("contended_acquisitions", m.contended.load());
        for (int i = 0; i < 11; ++i)
            count((std::string("entries_") + member_name(i)).c_str(), m.per_member[i].load());
        if (m.unlocked_entries.load())
            viol("C13", "C13/" + kind + "/entered-without-lock",
                 "%ld of %ld entries into the wrapped allocator happened while the calling thread did not hold the mutex (first seen in %s)",
                 m.unlocked_entries.load(), m.entries.load(), member_name(m.first_bad_member.load() < 0 ? 11 : m.first_bad_member.load()));
        if (m.overlaps.load())
            viol("C13", "C13/" + kind + "/overlapping-calls", "%ld times two threads were inside the wrapped allocator at once (first seen in %s)",
                 m.overlaps.load(), member_name(m.first_bad_member.load() < 0 ? 11 : m.first_bad_member.load()));
        count("wrapped_allocator_refusals", m.refusals.load());
        // (a wrapper that cannot be used after its allocator refused a request also breaks C03's "able to serve later valid requests")
        also_scope as("C03+C10", "C13");
        if (m.held_after_exception.load())
            viol("C13", "C13/" + kind + "/lock-held-after-exception",
                 "%ld of %ld times an exception thrown by the wrapped allocator left the calling thread holding the mutex", m.held_after_exception.load(),
                 m.refusals.load());
        if (m.try_gave_up.load())
            viol("C13", "C13/" + kind + "/composable-member-gave-up",
                 "%ld times a try_ member of the wrapper reported failure although the wrapped allocator never refuses: it did not wait for the mutex",
                 m.try_gave_up.load());
        (void)need_contention;
    }

    void mutex_group(const args& a)
    {
        static const char* kinds[] = {"direct_storage+monitor-mutex", "reference_storage+monitor-mutex", "any_reference+monitor-mutex",
                                      "direct_storage+std::mutex", "empty-stateful-allocator+monitor-mutex"};
        for (int k = 0; k < 5; ++k)
        {
            std::string kind = kinds[k];
            if (a.kind != "all" && a.kind != kind)
                continue;
            for (long c = a.from; c < a.to; ++c)
                run_case(kind, c, [&] {
                    auto r        = case_rng(a.seed, a.group, kind, c);
                    int  nthreads = int(r.range(2, std::size_t(a.num("maxthreads", 8))));
                    int  ops      = a.ops;
                    auto seed     = r.next();
                    M().reset();
                    M().judge_owner = k != 3;
                    int counter     = 0;
                    op("%s: %d threads x %d operations over every forwarding member and the lock() proxy", kinds[k], nthreads, ops);
                    if (k == 0)
                    {
                        thread_safe_allocator<mon_alloc, mon_mutex> s{mon_alloc(&counter)};
                        run_threads(s, nthreads, ops, seed, true);
                    }
                    else if (k == 1)
                    {
                        mon_alloc inner(&counter);
                        allocator_storage<reference_storage<mon_alloc>, mon_mutex> s(inner);
                        run_threads(s, nthreads, ops, seed, true);
                    }
                    else if (k == 2)
                    {
                        mon_alloc inner(&counter);
                        allocator_storage<reference_storage<any_allocator>, mon_mutex> s(inner);
                        run_threads(s, nthreads, ops, seed, false);
                    }
                    else if (k == 3)
                    {
                        thread_safe_allocator<mon_alloc, std::mutex> s{mon_alloc(&counter)};
                        run_threads(s, nthreads, ops, seed, true);
                    }
                    else
                    {
                        mon_alloc_empty::counter() = &counter;
                        thread_safe_allocator<mon_alloc_empty, mon_mutex> s{mon_alloc_empty{}};
                        run_threads(s, nthreads, ops, seed, true);
                    }
                    judge_monitor(kind, true);
                    if (counter != 2 * M().entries.load())
                        viol("C13", "C13/" + kind + "/lost-update", "the wrapped allocator's unsynchronised counter is %d after %ld entries (expected %ld)", counter,
                             M().entries.load(), 2 * M().entries.load());
                    flag("threads");
                });
        }
    }

    // real allocators behind std::mutex, per-thread patterns; races are ThreadSanitizer's to find
    template <class S>
    void real_work(S& s, std::uint64_t seed, int ops, std::size_t node, std::atomic<long>& corrupt)
    {
        rng r(seed);
        using tr = allocator_traits<S>;
        struct rec
        {
            unsigned char* p;
            unsigned char  v;
        };
        std::vector<rec> mine;
        for (int i = 0; i < ops; ++i)
        {
            if (mine.size() < 40 && (mine.empty() || r.chance(55)))
            {
                auto p = static_cast<unsigned char*>(tr::allocate_node(s, node, 8));
                auto v = (unsigned char)r.below(256);
                std::memset(p, v, node);
                mine.push_back({p, v});
            }
            else
            {
                auto k = r.below(mine.size());
                for (std::size_t j = 0; j < node; ++j)
                    if (mine[k].p[j] != mine[k].v)
                    {
                        corrupt.fetch_add(1);
                        break;
                    }
                tr::deallocate_node(s, mine[k].p, node, 8);
                mine.erase(mine.begin() + long(k));
            }
            if (r.chance(5))
                (void)tr::max_node_size(s);
        }
        for (auto& e : mine)
            tr::deallocate_node(s, e.p, node, 8);
    }
    template <class S>
    void real_threads(S& s, int nthreads, int ops, std::uint64_t seed, std::size_t node, const std::string& kind)
    {
        std::atomic<long>        corrupt{0};
        std::vector<std::thread> th;
        for (int t = 0; t < nthreads; ++t)
            th.emplace_back([&, t] { real_work(s, seed + std::uint64_t(t) * 77, ops, node, corrupt); });
        for (auto& t : th)
            t.join();
        count("real_allocator_ops", (long long)nthreads * ops);
        if (corrupt.load())
            viol("C13", "C13/" + kind + "/pattern-corrupted", "%ld allocations made through the thread-safe wrapper were overwritten while live", corrupt.load());
    }
    void real_group(const args& a)
    {
        static const char* kinds[] = {"thread_safe<pool<node>>", "thread_safe<pool<small>>", "thread_safe<coll<node,log2>>", "thread_safe<stack>"};
        for (int k = 0; k < 4; ++k)
        {
            std::string kind = kinds[k];
            if (a.kind != "all" && a.kind != kind)
                continue;
            for (long c = a.from; c < a.to; ++c)
                run_case(kind, c, [&] {
                    auto r        = case_rng(a.seed, a.group, kind, c);
                    int  nthreads = int(r.range(2, 8));
                    auto seed     = r.next();
                    op("%s: %d threads x %d operations with per-thread patterns", kinds[k], nthreads, a.ops);
                    if (k == 0)
                    {
                        thread_safe_allocator<memory_pool<node_pool>> s{memory_pool<node_pool>(32, 4096)};
                        real_threads(s, nthreads, a.ops, seed, 32, kind);
                    }
                    else if (k == 1)
                    {
                        thread_safe_allocator<memory_pool<small_node_pool>> s{memory_pool<small_node_pool>(8, 2048)};
                        real_threads(s, nthreads, a.ops, seed, 8, kind);
                    }
                    else if (k == 2)
                    {
                        thread_safe_allocator<memory_pool_collection<node_pool, log2_buckets>> s{memory_pool_collection<node_pool, log2_buckets>(64, 16384)};
                        real_threads(s, nthreads, a.ops, seed, 24, kind);
                    }
                    else
                    {
                        thread_safe_allocator<memory_stack<>> s{memory_stack<>(4096)};
                        real_threads(s, nthreads, std::min(a.ops, 300), seed, 16, kind);
                    }
                    flag("threads");
                });
        }
    }

    // stateless allocators: no lock is taken, and they are safe as they are
    template <class A>
    void stateless_threads(const std::string& kind, int nthreads, int ops, std::uint64_t seed)
    {
        std::atomic<long>        corrupt{0};
        std::vector<std::thread> th;
        for (int t = 0; t < nthreads; ++t)
            th.emplace_back([&, t] {
                A a; // every thread its own (stateless) object, and a shared wrapped one below
                real_work(a, seed + std::uint64_t(t), ops, 40, corrupt);
            });
        for (auto& t : th)
            t.join();
        M().reset();
        thread_safe_allocator<A, mon_mutex> wrapped{A()};
        th.clear();
        for (int t = 0; t < nthreads; ++t)
            th.emplace_back([&, t] { real_work(wrapped, seed + 1000 + std::uint64_t(t), ops, 40, corrupt); });
        for (auto& t : th)
            t.join();
        count("stateless_ops", 2ll * nthreads * ops);
        if (M().acquisitions.load())
            viol("C13", "C13/" + kind + "/stateless-took-lock", "wrapping a stateless allocator locked the mutex %ld times", M().acquisitions.load());
        if (corrupt.load())
            viol("C13", "C13/" + kind + "/pattern-corrupted", "memory from a stateless allocator used concurrently was overwritten while live");
    }
    void stateless_group(const args& a)
    {
        static const char* kinds[] = {"heap_allocator", "malloc_allocator", "new_allocator", "virtual_memory_allocator"};
        for (int k = 0; k < 4; ++k)
        {
            std::string kind = kinds[k];
            if (a.kind != "all" && a.kind != kind)
                continue;
            for (long c = a.from; c < a.to; ++c)
                run_case(kind, c, [&] {
                    auto r = case_rng(a.seed, a.group, kind, c);
                    int  n = int(r.range(2, 8));
                    op("%s: %d threads x %d operations, bare and wrapped", kinds[k], n, a.ops);
                    if (k == 0)
                        stateless_threads<heap_allocator>(kind, n, a.ops, r.next());
                    else if (k == 1)
                        stateless_threads<malloc_allocator>(kind, n, a.ops, r.next());
                    else if (k == 2)
                        stateless_threads<new_allocator>(kind, n, a.ops, r.next());
                    else
                        stateless_threads<virtual_memory_allocator>(kind, n, std::min(a.ops, 200), r.next());
                    flag("threads");
                });
        }
    }

    //=== C14: event log + ownership-interval checker ===//
    struct event
    {
        long        clock;
        int         thread;
        char        kind; // 'S' thread start, 'G' get returned stack, 'I' initializer constructed, 'D' initializer destruction begins, 'X' thread body ends
        const void* stack;
    };
    struct evlog
    {
        std::mutex         m;
        std::vector<event> ev;
        long               clock = 0;
        void add(int thread, char kind, const void* stack = nullptr)
        {
            std::lock_guard<std::mutex> g(m);
            ev.push_back({++clock, thread, kind, stack});
        }
    };

    // offline: no stack is held by two threads at once; number of stack objects <= peak number of live threads
    void check_log(const std::string& kind, evlog& log, const std::string& how)
    {
        std::map<const void*, int> holder; // stack -> thread holding it
        std::map<int, const void*> holds;  // thread -> stack
        std::set<const void*>      stacks;
        int                        live = 0, peak = 0;
        for (auto& e : log.ev)
        {
            switch (e.kind)
            {
            case 'S':
                ++live;
                peak = std::max(peak, live);
                break;
            case 'G':
            {
                stacks.insert(e.stack);
                auto it = holder.find(e.stack);
                if (it != holder.end() && it->second != e.thread)
                    viol("C14", "C14/" + kind + "/stack-shared-by-live-threads",
                         "thread %d obtained a temporary stack that thread %d is still holding (%s; event %ld of %zu)", e.thread, it->second, how.c_str(),
                         e.clock, log.ev.size());
                auto mine = holds.find(e.thread);
                if (mine != holds.end() && mine->second != e.stack)
                    viol("C14", "C14/" + kind + "/stack-changed-within-thread", "thread %d got another stack although it had not released the previous one",
                         e.thread);
                holder[e.stack]  = e.thread;
                holds[e.thread] = e.stack;
                break;
            }
            case 'D':
            case 'X':
            {
                auto mine = holds.find(e.thread);
                if (mine != holds.end())
                {
                    holder.erase(mine->second);
                    holds.erase(mine);
                }
                if (e.kind == 'X')
                    --live;
                break;
            }
            default:
                break;
            }
        }
        count("events_checked", (long long)log.ev.size());
        count("stack_objects_seen", (long long)stacks.size());
        if (int(stacks.size()) > peak)
            viol("C14", "C14/" + kind + "/stack-count-exceeds-peak-threads",
                 "%zu temporary stack objects were used although at most %d threads were alive at once: stacks of finished threads are not reused (%s)",
                 stacks.size(), peak, how.c_str());
    }

    // a thread's program: a seeded sequence of scopes with / without initializer
    void thread_program(evlog& log, int tid, std::uint64_t seed, int rounds)
    {
        rng r(seed);
        for (int i = 0; i < rounds; ++i)
        {
            if (r.chance(50))
            {
                temporary_stack_initializer init(r.range(128, 1024));
                log.add(tid, 'I');
                auto& st = get_temporary_stack();
                log.add(tid, 'G', &st);
                {
                    temporary_allocator ta;
                    auto                p = static_cast<unsigned char*>(ta.allocate(r.range(1, 200), 8));
                    p[0]                  = (unsigned char)tid;
                    if (r.chance(40))
                    {
                        temporary_allocator inner;
                        auto                q = static_cast<unsigned char*>(inner.allocate(r.range(1, 100), 4));
                        q[0]                  = 1;
                    }
                    if (p[0] != (unsigned char)tid)
                        log.add(tid, '!');
                }
                log.add(tid, 'D');
            }
            else
            {
                auto& st = get_temporary_stack();
                log.add(tid, 'G', &st);
                temporary_allocator ta;
                auto                p = static_cast<unsigned char*>(ta.allocate(r.range(1, 300), 8));
                std::memset(p, tid, 8);
                if (r.chance(30))
                    std::this_thread::yield();
                if (p[3] != (unsigned char)tid)
                    log.add(tid, '!');
            }
        }
    }

    //=== token scheduler ===//
    struct scheduler
    {
        std::mutex              m;
        std::condition_variable cv;
        int                     n = 0;
        std::vector<bool>       alive;
        int                     entered = 0;
        int                     current = -1;
        rng                     r{1};
        std::uint64_t           trace = 0xcbf29ce484222325ull;
        long                    points = 0;
        bool                    active = false;

        int pick()
        {
            std::vector<int> c;
            for (int i = 0; i < n; ++i)
                if (alive[std::size_t(i)])
                    c.push_back(i);
            if (c.empty())
                return -1;
            return c[r.below(c.size())];
        }
        void start(int i)
        {
            std::unique_lock<std::mutex> l(m);
            ++entered;
            if (entered == n)
            {
                current = pick();
                cv.notify_all();
            }
            cv.wait(l, [&] { return current == i; });
        }
        void point(int i, int id)
        {
            std::unique_lock<std::mutex> l(m);
            ++points;
            unsigned char b[2] = {(unsigned char)i, (unsigned char)id};
            trace              = fnv(trace, b, 2);
            current            = pick();
            cv.notify_all();
            cv.wait(l, [&] { return current == i; });
        }
        void finish(int i)
        {
            std::unique_lock<std::mutex> l(m);
            alive[std::size_t(i)] = false;
            current               = pick();
            cv.notify_all();
        }
    };
    scheduler*       g_sched = nullptr;
    thread_local int t_index = -1;

    void sched_hook(int id, const void*)
    {
        if (g_sched && t_index >= 0)
            g_sched->point(t_index, id);
    }
    // constructed first in a scheduled thread, hence destroyed after every other thread_local of that thread:
    // the thread-exit destructors of the library still run under the scheduler
    struct finisher
    {
        ~finisher()
        {
            if (g_sched && t_index >= 0)
            {
                auto i  = t_index;
                t_index = -1;
                g_sched->finish(i);
            }
        }
    };

    void sched_group(const args& a)
    {
        std::string kind = "scheduled";
        if (a.kind != "all" && a.kind != kind)
            return;
        detail::verif_hook().store(sched_hook);
        std::set<std::uint64_t> interleavings;
        for (long c = a.from; c < a.to; ++c)
            run_case(kind, c, [&] {
                // a stack that is lost from the list is never reused and never freed: its blocks are not given back (C05)
                also_scope lost_blocks("C05", "C14");
                auto r        = case_rng(a.seed, a.group, kind, c);
                int  nthreads = int(r.range(2, std::size_t(a.num("maxthreads", 3))));
                int  waves    = int(r.range(1, 2)); // a second wave of threads starts after the first has been joined: reuse
                evlog log;
                op("%d scheduled threads x %d waves", nthreads, waves);
                std::uint64_t trace = 0;
                for (int w = 0; w < waves; ++w)
                {
                    scheduler s;
                    s.n = nthreads;
                    s.alive.assign(std::size_t(nthreads), true);
                    s.r     = rng(r.next());
                    g_sched = &s;
                    std::vector<std::thread> th;
                    for (int t = 0; t < nthreads; ++t)
                    {
                        int  tid  = w * 10 + t + 1;
                        auto seed = r.next();
                        log.add(tid, 'S');
                        th.emplace_back([&, t, tid, seed] {
                            thread_local finisher fin; // first thread_local of this thread
                            (void)fin;
                            t_index = t;
                            s.start(t);
                            thread_program(log, tid, seed, 1 + int(seed % 3));
                            log.add(tid, 'X');
                            // the thread-local destructors (thread exit detector) run after this, still scheduled; then ~finisher
                        });
                    }
                    for (auto& t : th)
                        t.join();
                    g_sched = nullptr;
                    trace ^= s.trace + std::uint64_t(w);
                    count("scheduling_points", s.points);
                }
                for (auto& e : log.ev)
                    if (e.kind == '!')
                        viol("C14", "C14/" + kind + "/temporary-memory-overwritten", "a live temporary allocation of thread %d was overwritten", e.thread);
                cx().sig = fnv(cx().sig, &trace, sizeof trace);
                if (interleavings.insert(trace).second)
                    count("distinct_interleavings");
                check_log(kind, log, "scheduled run");
                flag("threads");
            });
        detail::verif_hook().store(nullptr);
    }

    void free_group(const args& a)
    {
        static const char* kinds[] = {"sequential-threads", "concurrent-threads", "stampede"};
        for (int k = 0; k < 3; ++k)
        {
            std::string kind = kinds[k];
            if (a.kind != "all" && a.kind != kind)
                continue;
            for (long c = a.from; c < a.to; ++c)
                run_case(kind, c, [&] {
                    // a stack that is lost from the list is never reused and never freed: its blocks are not given back (C05)
                    also_scope lost_blocks("C05", "C14");
                    auto  r = case_rng(a.seed, a.group, kind, c);
                    evlog log;
                    if (k == 0)
                    {
                        int n = int(r.range(4, 12));
                        op("%d threads one after the other", n);
                        for (int t = 0; t < n; ++t)
                        {
                            log.add(t + 1, 'S');
                            auto        seed = r.next();
                            op("thread %d: program %llu", t + 1, (unsigned long long)(seed % 1000));
                            std::thread th([&, t, seed] {
                                thread_program(log, t + 1, seed, 1 + int(seed % 3));
                                log.add(t + 1, 'X');
                            });
                            th.join();
                        }
                    }
                    else if (k == 2)
                    {
                        // waves of threads that all ask for their stack at the same instant, while the stacks of the previous wave
                        // lie unused in the list: the adoption of an unused stack must be one atomic step
                        int n = int(r.range(4, 16)), waves = int(r.range(20, 60));
                        op("stampede: %d threads x %d waves, released together by a spin barrier", n, waves);
                        for (int w = 0; w < waves; ++w)
                        {
                            std::atomic<int>         arrived{0}, got{0};
                            std::vector<std::thread> th;
                            for (int t = 0; t < n; ++t)
                            {
                                int tid = w * 100 + t + 1;
                                log.add(tid, 'S');
                                th.emplace_back([&, tid] {
                                    arrived.fetch_add(1);
                                    while (arrived.load(std::memory_order_acquire) < n)
                                    {
                                    }
                                    auto& st = get_temporary_stack();
                                    log.add(tid, 'G', &st);
                                    temporary_allocator ta;
                                    auto                p = static_cast<unsigned char*>(ta.allocate(64, 8));
                                    std::memset(p, tid, 64);
                                    got.fetch_add(1);
                                    while (got.load(std::memory_order_acquire) < n) // everybody holds a stack at the same time
                                        std::this_thread::yield();
                                    if (p[63] != (unsigned char)tid)
                                        log.add(tid, '!');
                                    log.add(tid, 'X');
                                });
                            }
                            for (auto& t : th)
                                t.join();
                            count("stampede_waves");
                        }
                    }
                    else
                    {
                        int n = int(r.range(2, 8)), waves = int(r.range(1, 3));
                        op("%d concurrent threads x %d waves", n, waves);
                        for (int w = 0; w < waves; ++w)
                        {
                            std::vector<std::thread> th;
                            for (int t = 0; t < n; ++t)
                            {
                                int tid = w * 20 + t + 1;
                                log.add(tid, 'S');
                                auto seed = r.next();
                                op("thread %d: program %llu", tid, (unsigned long long)(seed % 1000));
                                th.emplace_back([&, tid, seed] {
                                    thread_program(log, tid, seed, 1 + int(seed % 4));
                                    log.add(tid, 'X');
                                });
                            }
                            for (auto& t : th)
                                t.join();
                        }
                    }
                    for (auto& e : log.ev)
                        if (e.kind == '!')
                            viol("C14", "C14/" + kind + "/temporary-memory-overwritten", "a live temporary allocation of thread %d was overwritten", e.thread);
                    // free-running: 'X' is logged before the thread-local destructors release the stack, and a later thread may start
                    // only after join(): the interval checker is exact for sequential threads and conservative for concurrent ones
                    check_log(kind, log, "free-running threads");
                    flag("threads");
                });
        }
    }

    //=== exit: everything is freed at program exit ===//
    int  g_leak_fd = -1;
    void leak_to_fd(const allocator_info& info, std::ptrdiff_t amount)
    {
        char b[160];
        int  n = snprintf(b, sizeof b, "LEAK %s %td\n", info.name ? info.name : "?", amount);
        if (g_leak_fd >= 0 && n > 0)
        {
            auto w = ::write(g_leak_fd, b, std::size_t(n));
            (void)w;
        }
    }

    // concurrent, balanced traffic on a stateless low-level allocator: the process-wide leak count must be exactly zero at exit
    // (the allocators are "safe to use concurrently as they are", and the net reported at exit is exact)
    template <class A>
    void stateless_exit_kind(const args& a, const char* name)
    {
        std::string kind = std::string("stateless-exit/") + name;
        if (a.kind != "all" && a.kind != kind)
            return;
        for (long c = a.from; c < a.to; ++c)
            run_case(kind, c, [&] {
                auto r    = case_rng(a.seed, a.group, kind, c);
                int  n    = int(r.range(4, 12));
                auto seed = r.next();
                bool leak = c % 4 == 3; // sometimes one known block is kept: the report must name exactly it
                op("child process: %d threads x balanced traffic on %s%s; leak report at exit", n, name, leak ? " + one 100-byte node kept" : "");
                int fds[2];
                if (pipe(fds) != 0)
                    return;
                fflush(nullptr);
                pid_t pid = fork();
                if (pid == 0)
                {
                    close(fds[0]);
                    g_leak_fd = fds[1];
                    set_leak_handler(leak_to_fd);
                    signal(SIGABRT, SIG_DFL);
                    signal(SIGSEGV, SIG_DFL);
                    std::vector<std::thread> th;
                    std::atomic<int>         ready{0};
                    for (int t = 0; t < n; ++t)
                        th.emplace_back([&, t] {
                            A   al;
                            rng rr(seed + std::uint64_t(t));
                            ready.fetch_add(1);
                            while (ready.load() < n)
                            {
                            }
                            for (int i = 0; i < 20000; ++i)
                            {
                                auto  size = rr.range(1, 64);
                                void* p    = al.allocate_node(size, 8);
                                al.deallocate_node(p, size, 8);
                            }
                        });
                    for (auto& t : th)
                        t.join();
                    if (leak)
                    {
                        A al;
                        (void)al.allocate_node(100, 8);
                    }
                    std::exit(0);
                }
                close(fds[1]);
                std::string out;
                char        buf[256];
                for (;;)
                {
                    auto got = ::read(fds[0], buf, sizeof buf);
                    if (got <= 0)
                        break;
                    out.append(buf, std::size_t(got));
                }
                close(fds[0]);
                int st = 0;
                waitpid(pid, &st, 0);
                count("exit_children");
                count("stateless_exit_ops", 20000ll * n);
#if FOONATHAN_MEMORY_DEBUG_LEAK_CHECK
                auto prop = cx().prop == "C15" ? "C15" : "C13";
                for (auto& ch : out)
                    if (ch == '\n')
                        ch = ';';
                if (!leak && !out.empty())
                    viol(prop, std::string(prop) + "/" + kind + "/concurrent-count-wrong",
                         "balanced allocate/deallocate traffic from %d threads left a non-zero process-wide count at exit: %s", n, out.c_str());
                if (leak)
                {
                    long amount = 0;
                    auto sp     = out.rfind(' ');
                    if (sp != std::string::npos)
                        amount = atol(out.c_str() + sp + 1);
                    bool exact = detail::debug_fence_size == 0 || std::string(name) == "virtual_memory_allocator";
                    if (out.empty() || (exact ? amount != 100 : amount < 100 || amount > 100 + 64))
                        viol(prop, std::string(prop) + "/" + kind + "/concurrent-count-wrong",
                             "after balanced traffic from %d threads plus one 100-byte node that was kept, the report at exit says: '%s'", n, out.c_str());
                }
#endif
                flag("threads");
            });
    }

    void exit_group(const args& a)
    {
        static const char* kinds[] = {"workers-only", "main-only", "main-and-workers", "workers-with-initializers", "nothing-used", "main-initializer-then-workers"};
        for (int k = 0; k < 6; ++k)
        {
            std::string kind = std::string("exit/") + kinds[k];
            if (a.kind != "all" && a.kind != kind)
                continue;
            for (long c = a.from; c < a.to; ++c)
                run_case(kind, c, [&] {
                    // a stack that is lost from the list is never reused and never freed: its blocks are not given back (C05)
                    also_scope lost_blocks("C05", "C14");
                    auto r    = case_rng(a.seed, a.group, kind, c);
                    int  n    = int(r.range(1, 4));
                    auto seed = r.next();
                    op("child process: %s, %d workers, programs %llu; the library's leak handler reports at exit", kinds[k], n,
                       (unsigned long long)(seed % 100000));
                    int fds[2];
                    if (pipe(fds) != 0)
                        return;
                    fflush(nullptr);
                    pid_t pid = fork();
                    if (pid == 0)
                    {
                        close(fds[0]);
                        g_leak_fd = fds[1];
                        set_leak_handler(leak_to_fd);
                        signal(SIGABRT, SIG_DFL);
                        signal(SIGSEGV, SIG_DFL);
                        evlog log;
                        auto  work = [&](int tid, bool init) {
                            rng rr(seed + std::uint64_t(tid));
                            if (init)
                            {
                                temporary_stack_initializer i(512);
                                temporary_allocator         ta;
                                ta.allocate(rr.range(1, 200), 8); // (a request must fit into a fresh block)
                                ta.allocate(rr.range(1, 200), 8);
                                ta.allocate(rr.range(1, 200), 8);
                            }
                            else
                            {
                                temporary_allocator ta;
                                ta.allocate(rr.range(1, 1500), 8);
                                temporary_allocator tb;
                                tb.allocate(rr.range(1, 1500), 8);
                                tb.allocate(rr.range(1, 1500), 8);
                            }
                        };
                        bool main_uses = k == 1 || k == 2 || k == 5;
                        bool workers   = k == 0 || k == 2 || k == 3 || k == 5;
                        if (main_uses)
                            work(0, k == 5);
                        if (workers)
                        {
                            std::vector<std::thread> th;
                            for (int t = 0; t < n; ++t)
                                th.emplace_back([&, t] { work(t + 1, k == 3); });
                            for (auto& t : th)
                                t.join();
                        }
                        std::exit(0); // static destruction runs: the library frees its stacks and reports leaks
                    }
                    close(fds[1]);
                    std::string out;
                    char        buf[256];
                    for (;;)
                    {
                        auto got = ::read(fds[0], buf, sizeof buf);
                        if (got <= 0)
                            break;
                        out.append(buf, std::size_t(got));
                    }
                    close(fds[0]);
                    int st = 0;
                    waitpid(pid, &st, 0);
                    count("exit_children");
                    if (!WIFEXITED(st) || WEXITSTATUS(st) != 0)
                        viol("C14", "C14/" + kind + "/child-died", "the child process did not exit normally (status 0x%x)", st);
#if FOONATHAN_MEMORY_DEBUG_LEAK_CHECK
                    if (!out.empty())
                    {
                        for (auto& ch : out)
                            if (ch == '\n')
                                ch = ';';
                        viol("C14", "C14/" + kind + "/leak-at-exit", "memory of the temporary stacks was not freed at program exit: %s", out.c_str());
                    }
#endif
                    flag("threads");
                });
        }
    }
    //=== C13: the new-handler protocol of new_allocator under concurrent failures ===//
    // new_allocator is stateless, so no mutex is ever taken for it, wrapped or not; its failure path consults the program's
    // new-handler. Threads issue requests that ::operator new cannot serve (half the address space) next to ordinary ones; a
    // monitor thread watches the installed new-handler. Observed: every failed request gave the handler a chance on the requesting
    // thread, ended as out_of_memory, and the program's handler is installed at every observation and at the end.
    thread_local long    tl_handler_calls = 0;
    std::atomic<long>    g_oom_reports{0};
    void counting_new_handler()
    {
        ++tl_handler_calls;
        throw std::bad_alloc();
    }
    template <class Alloc>
    void newhandler_kind(const args& a, const char* name)
    {
        std::string kind = std::string("new-handler/") + name;
        if (a.kind != "all" && a.kind != kind)
            return;
        for (long c = a.from; c < a.to; ++c)
            run_case(kind, c, [&] {
                auto r        = case_rng(a.seed, a.group, kind, c);
                int  nthreads = int(r.range(2, 8));
                int  ops      = a.ops;
                op("%d threads x %d requests, about a third of them impossible to serve", nthreads, ops);
                auto old_handler = std::set_new_handler(&counting_new_handler);
                auto old_oom     = out_of_memory::set_handler([](const allocator_info&, std::size_t) { g_oom_reports.fetch_add(1, std::memory_order_relaxed); });
                std::atomic<bool> stop{false};
                std::atomic<long> replaced{0}, observations{0}, not_consulted{0}, not_signalled{0}, failed{0}, served{0}, corrupt{0};
                std::thread       monitor([&] {
                    while (!stop.load(std::memory_order_acquire))
                    {
                        if (std::get_new_handler() != &counting_new_handler)
                            replaced.fetch_add(1, std::memory_order_relaxed);
                        observations.fetch_add(1, std::memory_order_relaxed);
                    }
                });
                std::vector<std::thread> th;
                std::vector<std::uint64_t> seeds;
                for (int t = 0; t < nthreads; ++t)
                    seeds.push_back(r.next());
                for (int t = 0; t < nthreads; ++t)
                    th.emplace_back([&, t] {
                        rng   tr(seeds[std::size_t(t)]);
                        Alloc alloc;
                        using traits = allocator_traits<Alloc>;
                        for (int i = 0; i < ops; ++i)
                        {
                            if (tr.chance(35))
                            {
                                auto before = tl_handler_calls;
                                bool oom    = false;
                                try
                                {
                                    auto big = traits::max_node_size(alloc) / 2 - tr.below(4096);
                                    void* p  = traits::allocate_node(alloc, big, 8);
                                    traits::deallocate_node(alloc, p, big, 8); // not expected to get here
                                }
                                catch (out_of_memory&)
                                {
                                    oom = true;
                                }
                                catch (std::bad_alloc&)
                                {
                                }
                                failed.fetch_add(1, std::memory_order_relaxed);
                                if (!oom)
                                    not_signalled.fetch_add(1, std::memory_order_relaxed);
                                if (tl_handler_calls == before)
                                    not_consulted.fetch_add(1, std::memory_order_relaxed);
                                if (std::get_new_handler() != &counting_new_handler)
                                    replaced.fetch_add(1, std::memory_order_relaxed);
                            }
                            else
                            {
                                std::size_t n = tr.range(1, 300);
                                auto        p = static_cast<unsigned char*>(traits::allocate_node(alloc, n, 8));
                                std::memset(p, t + 1, n);
                                if (p[0] != (unsigned char)(t + 1) || p[n - 1] != (unsigned char)(t + 1))
                                    corrupt.fetch_add(1, std::memory_order_relaxed);
                                traits::deallocate_node(alloc, p, n, 8);
                                served.fetch_add(1, std::memory_order_relaxed);
                            }
                        }
                    });
                for (auto& t : th)
                    t.join();
                stop.store(true, std::memory_order_release);
                monitor.join();
                auto final_handler = std::get_new_handler();
                std::set_new_handler(old_handler);
                out_of_memory::set_handler(old_oom);
                count("failed_requests", failed.load());
                count("served_requests", served.load());
                count("handler_observations", observations.load());
                if (final_handler != &counting_new_handler)
                    viol("C13", "C13/" + kind + "/new-handler-lost", "after %ld concurrently failing requests the program's new-handler is no longer installed",
                         failed.load());
                if (replaced.load())
                    viol("C13", "C13/" + kind + "/new-handler-replaced", "the program's new-handler was found replaced %ld times while threads were using the allocator",
                         replaced.load());
                if (not_consulted.load())
                    viol("C13", "C13/" + kind + "/new-handler-not-consulted", "%ld of %ld failed requests ended without the installed new-handler being called on the requesting thread",
                         not_consulted.load(), failed.load());
                if (not_signalled.load())
                    viol("C13", "C13/" + kind + "/failure-not-out-of-memory", "%ld of %ld failed requests did not end in out_of_memory", not_signalled.load(), failed.load());
                if (corrupt.load())
                    viol("C13", "C13/" + kind + "/pattern-corrupted", "memory from a stateless allocator used concurrently was overwritten while live");
                flag("threads");
            });
    }
} // namespace

int main(int argc, char** argv)
{
    auto a = parse_args(argc, argv, "h_thread");
    cx().nontrivial_rule = [](const std::set<std::string>& f) { return f.count("threads") != 0; };
    if (a.group == "mutex")
        mutex_group(a);
    else if (a.group == "real")
        real_group(a);
    else if (a.group == "stateless")
        stateless_group(a);
    else if (a.group == "sched")
        sched_group(a);
    else if (a.group == "free")
        free_group(a);
    else if (a.group == "exit")
        exit_group(a);
    else if (a.group == "newhandler")
    {
        newhandler_kind<new_allocator>(a, "new_allocator");
        newhandler_kind<thread_safe_allocator<new_allocator>>(a, "thread_safe<new_allocator>");
    }
    else if (a.group == "statelessexit")
    {
        stateless_exit_kind<heap_allocator>(a, "heap_allocator");
        stateless_exit_kind<malloc_allocator>(a, "malloc_allocator");
        stateless_exit_kind<new_allocator>(a, "new_allocator");
        stateless_exit_kind<virtual_memory_allocator>(a, "virtual_memory_allocator");
    }
    finish();
    return 0;
}
