#include "common/stack_engine.hpp"
void run_iter_12(const vf::args& a)
{
    vf_stack::run_iter_sources<1>(a);
    vf_stack::run_iter_sources<2>(a);
}
