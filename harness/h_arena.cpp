// memory_arena<.., cached|uncached> and the block sources driven directly (C05: every block returned exactly once, LIFO, cache reused
// before new blocks; C12: moves, move assignments and swaps of arenas and block sources).
#include <foonathan/memory/memory_arena.hpp>
#include <fcntl.h>
#include <unistd.h>

#include <foonathan/memory/static_allocator.hpp>
#include <foonathan/memory/virtual_memory.hpp>

#include "common/core.hpp"

using namespace vf;
using namespace foonathan::memory;

namespace
{
    template <bool Cached>
    void arena_kind(const args& a)
    {
        std::string kind = Cached ? "arena<cached>" : "arena<uncached>";
        if (a.kind != "all" && a.kind != kind)
            return;
        using A = memory_arena<growing_block_allocator<probe_raw>, Cached>;
        for (long c = a.from; c < a.to; ++c)
            run_case(kind, c, [&] {
                auto r = case_rng(a.seed, a.group, kind, c);
                struct unit
                {
                    probe_handle               h = make_probe("raw", true);
                    std::unique_ptr<A>         a;
                    std::vector<memory_block>  used;
                    std::size_t                cached = 0;
                };
                std::vector<std::unique_ptr<unit>> units;
                std::vector<probe_handle>          all;
                false_report_guard                 frg;
                auto fresh = [&] {
                    std::unique_ptr<unit> u(new unit);
                    all.push_back(u->h);
                    u->a.reset(new A(r.range(64, 600), probe_raw(u->h)));
                    return u;
                };
                auto model = [&](unit& u, const char* after) {
                    u.h->check();
                    if (u.a->size() != u.used.size())
                        viol("C05", "C05/" + kind + "/size", "size() is %zu, %zu blocks are in use (after %s)", u.a->size(), u.used.size(), after);
                    if (u.a->cache_size() != u.cached)
                        viol("C05", "C05/" + kind + "/cache-size", "cache_size() is %zu, the model has %zu cached blocks (after %s)", u.a->cache_size(), u.cached,
                             after);
                    if (u.h->live.size() != u.used.size() + u.cached)
                        viol("C05", "C05/" + kind + "/outstanding", "%zu blocks are outstanding upstream, %zu are in use and %zu cached (after %s)",
                             u.h->live.size(), u.used.size(), u.cached, after);
                    for (auto& b : u.used)
                        if (!u.a->owns(static_cast<char*>(b.memory) + b.size / 2))
                            viol("C12", "C12/" + kind + "/lost-block", "owns() is false for a block in use (after %s)", after);
                    frg.check(after);
                };
                units.push_back(fresh());
                while (cx().step < a.ops)
                {
                    auto& u = *units[r.below(units.size())];
                    auto  x = r.below(100);
                    if (x < 40)
                    {
                        if (u.a->next_block_size() > (std::size_t(1) << 18))
                            continue;
                        op("allocate_block");
                        auto acq0 = u.h->served;
                        auto nb   = u.a->next_block_size();
                        auto b    = u.a->allocate_block();
                        bool up   = u.h->served != acq0;
                        if (u.cached > 0 && up)
                            viol("C05", "C05/" + kind + "/upstream-asked-with-cache", "a new block was requested although %zu blocks are cached", u.cached);
                        if (u.cached == 0 && !up)
                            viol("C05", "C05/" + kind + "/block-from-nowhere", "a block appeared without an upstream request and without a cached block");
                        if (!up)
                        {
                            --u.cached;
                            flag("cache-reuse");
                            count("cache_reuse");
                        }
                        else
                            flag("grow");
                        if (b.size != nb)
                            viol("C18", "C18/" + kind + "/next-block-size", "next_block_size() announced %zu, the block has %zu bytes", nb, b.size);
                        if (!u.h->owns(static_cast<char*>(b.memory), b.size))
                            viol("C01", "C01/" + kind + "/outside-owned", "the block handed out is not inside an upstream block");
                        for (auto& o : u.used)
                            if ((char*)b.memory < (char*)o.memory + o.size && (char*)o.memory < (char*)b.memory + b.size)
                                viol("C01", "C01/" + kind + "/overlap", "two blocks in use overlap");
                        std::memset(b.memory, 0x5A, b.size);
                        u.used.push_back(b);
                        auto cur = u.a->current_block();
                        if (cur.memory != b.memory || cur.size != b.size)
                            viol("C05", "C05/" + kind + "/current-block", "current_block() is not the block just allocated");
                        model(u, "allocate_block");
                    }
                    else if (x < 65)
                    {
                        if (u.used.empty())
                            continue;
                        op("deallocate_block");
                        auto rel0 = u.h->releases;
                        u.a->deallocate_block();
                        u.used.pop_back();
                        if (Cached)
                        {
                            if (u.h->releases != rel0)
                                viol("C05", "C05/" + kind + "/cached-arena-released", "a cached arena returned a block upstream on deallocate_block()");
                            ++u.cached;
                        }
                        else if (u.h->releases != rel0 + 1)
                            viol("C05", "C05/" + kind + "/uncached-arena-kept", "an uncached arena did not return the block");
                        model(u, "deallocate_block");
                    }
                    else if (x < 73)
                    {
                        op("shrink_to_fit");
                        u.a->shrink_to_fit();
                        u.cached = 0;
                        count("shrinks");
                        model(u, "shrink_to_fit");
                    }
                    else if (x < 82)
                    {
                        op("move-construct");
                        std::unique_ptr<A> n(new A(std::move(*u.a)));
                        u.a.reset();
                        u.h->check();
                        u.a = std::move(n);
                        flag("move");
                        count("move_construct");
                        model(u, "move construction");
                    }
                    else if (x < 90)
                    {
                        op("move-assign onto an arena that holds blocks");
                        auto t = fresh();
                        for (int i = 0, n = int(r.below(3)); i < n; ++i)
                            t->a->allocate_block();
                        if (Cached && r.chance(50) && t->a->size())
                            t->a->deallocate_block();
                        *t->a = std::move(*u.a);
                        t->h->check();
                        if (!t->h->balanced())
                            viol("C12", "C12/" + kind + "/move-assign-target-blocks-kept", "the assigned-to arena's own blocks were not returned to its block source");
                        u.a = std::move(t->a);
                        flag("move");
                        count("move_assign");
                        model(u, "move assignment");
                    }
                    else if (x < 95 && units.size() >= 2)
                    {
                        op("swap");
                        auto &p = *units[0], &q = *units[1];
                        using std::swap;
                        swap(*p.a, *q.a);
                        std::swap(p.h, q.h);
                        std::swap(p.used, q.used);
                        std::swap(p.cached, q.cached);
                        flag("move");
                        count("swap");
                        model(p, "swap");
                        model(q, "swap");
                    }
                    else if (units.size() < 3)
                    {
                        op("second arena");
                        units.push_back(fresh());
                    }
                }
                op("destroy");
                units.clear();
                for (auto& h : all)
                {
                    h->check();
                    if (!h->balanced())
                        viol("C05", "C05/" + kind + "/not-balanced-at-destruction", "blocks are outstanding after the arena was destroyed");
                }
                count("destructions");
            });
    }

    // is the byte at p readable? (asks the kernel instead of touching it: write() fails with EFAULT for inaccessible memory)
    inline bool readable(const void* p)
    {
        // (a pipe: the kernel really copies the byte; /dev/null would not look at the buffer)
        static int fds[2] = {-1, -1};
        if (fds[0] < 0 && ::pipe(fds) != 0)
            return true;
        bool ok = ::write(fds[1], p, 1) == 1;
        char c;
        if (ok && ::read(fds[0], &c, 1) != 1)
            return true;
        return ok;
    }

    // the block sources themselves: LIFO use, moves, move assignment between sources with different parameters, exhaustion
    template <class Make>
    void source_kind(const args& a, const char* name, Make make)
    {
        std::string kind = name;
        if (a.kind != "all" && a.kind != kind)
            return;
        for (long c = a.from; c < a.to; ++c)
            run_case(kind, c, [&] {
                auto               r = case_rng(a.seed, a.group, kind, c);
                auto               b = make(r);
                std::vector<memory_block> st;
                false_report_guard frg;
                // a LIFO-only source that reports a release in exact reverse order of acquisition has lost track of its blocks: that is
                // C05's "given back in reverse order, with the same address and size" seen from the source's side
                also_scope as("C05", "C16");
                using B = typename std::decay<decltype(*b)>::type;
                while (cx().step < a.ops)
                {
                    auto x = r.below(100);
                    if (x < 45)
                    {
                        op("allocate_block");
                        auto nb = b->next_block_size();
                        if (nb > (std::size_t(1) << 18))
                            continue; // geometric growth: stop asking (a contract-respecting caller on a budget does)
                        try
                        {
                            auto blk = b->allocate_block();
                            if (blk.size != nb)
                                viol("C18", "C18/" + kind + "/next-block-size", "next_block_size() announced %zu, the block has %zu bytes", nb, blk.size);
                            if (reinterpret_cast<std::uintptr_t>(blk.memory) % detail::max_alignment)
                                viol("C02", "C02/" + kind + "/misaligned", "a block is not aligned for alignof(max_align_t)");
                            for (auto& o : st)
                                if ((char*)blk.memory < (char*)o.memory + o.size && (char*)o.memory < (char*)blk.memory + blk.size)
                                    viol("C01", "C01/" + kind + "/overlap", "the block source handed out a block overlapping an outstanding one");
                            std::memset(blk.memory, int(st.size() + 1), blk.size);
                            st.push_back(blk);
                            count("blocks");
                        }
                        catch (out_of_fixed_memory&)
                        {
                            count("out_of_memory_thrown");
                            flag("exhausted");
                        }
                    }
                    else if (x < 80)
                    {
                        if (st.empty())
                            continue;
                        op("deallocate_block (LIFO)");
                        auto& top = st.back();
                        for (std::size_t i = 0; i < top.size; i += 61)
                            if (static_cast<unsigned char*>(top.memory)[i] != (unsigned char)st.size())
                                viol("C01", "C01/" + kind + "/pattern-corrupted", "an outstanding block was overwritten");
                        auto released = top;
                        b->deallocate_block(top);
                        st.pop_back();
                        if (kind == "virtual_block_allocator")
                        {
                            // giving a block back to the virtual memory source means decommitting exactly its pages: the block is no longer
                            // accessible, every outstanding block still is
                            if (readable(released.memory) || readable(static_cast<char*>(released.memory) + released.size - 1))
                                viol("C05", "C05/" + kind + "/released-block-still-committed", "a block given back to the virtual memory source is still accessible");
                            for (auto& o : st)
                                if (!readable(o.memory) || !readable(static_cast<char*>(o.memory) + o.size - 1))
                                    viol("C05", "C05/" + kind + "/outstanding-block-decommitted", "giving back one block made an outstanding block inaccessible");
                            count("page_state_checks");
                        }
                    }
                    else if (x < 90)
                    {
                        op("move-construct");
                        std::unique_ptr<B> n(new B(std::move(*b)));
                        b.reset(); // the moved-from source is destroyed: must not touch the memory or abort
                        b = std::move(n);
                        flag("move");
                        count("move_construct");
                    }
                    else
                    {
                        // onto a source with other parameters that has nothing outstanding
                        op("move-assign onto a source with other parameters");
                        auto t = make(r);
                        *t     = std::move(*b);
                        b.reset();
                        b = std::move(t);
                        flag("move");
                        count("move_assign");
                    }
                    frg.check("block source operation");
                }
                while (!st.empty())
                {
                    b->deallocate_block(st.back());
                    st.pop_back();
                    frg.check("final deallocate_block");
                }
            });
    }
} // namespace

int main(int argc, char** argv)
{
    auto a = parse_args(argc, argv, "h_arena");
    install_recording_handlers();
    cx().nontrivial_rule = [](const std::set<std::string>& f) { return f.count("move") || f.count("grow") || f.count("cache-reuse") || f.count("exhausted"); };
    arena_kind<true>(a);
    arena_kind<false>(a);
    static static_allocator_storage<16384> storage_a, storage_b;
    static int                            flip = 0;
    source_kind(a, "static_block_allocator", [&](rng& r) {
        std::size_t bs = std::size_t(256) << r.below(4);
        return std::unique_ptr<static_block_allocator>(++flip % 2 ? new static_block_allocator(bs, storage_a) : new static_block_allocator(bs, storage_b));
    });
    source_kind(a, "virtual_block_allocator", [&](rng& r) {
        return std::unique_ptr<virtual_block_allocator>(new virtual_block_allocator(virtual_memory_page_size * r.range(1, 3), r.range(1, 5)));
    });
    source_kind(a, "fixed_block_allocator", [&](rng& r) { return std::unique_ptr<fixed_block_allocator<>>(new fixed_block_allocator<>(r.range(64, 2000))); });
    source_kind(a, "growing_block_allocator", [&](rng& r) { return std::unique_ptr<growing_block_allocator<>>(new growing_block_allocator<>(r.range(64, 500))); });
    finish();
    return 0;
}
