#include "common/pool_engine.hpp"
void run_pool_node(const vf::args& a)
{
    vf_pool::run_sources<foonathan::memory::node_pool>(a);
}
