#include "common/pool_engine.hpp"
void run_pool_array(const vf::args& a)
{
    vf_pool::run_sources<foonathan::memory::array_pool>(a);
}
