// C08: composable deallocation recognises exactly its own memory (groups "siblings", "routing")
// C09: adapters forward every request faithfully and release with matching parameters (group "forward")
#include <foonathan/memory/aligned_allocator.hpp>
#include <foonathan/memory/allocator_storage.hpp>
#include <foonathan/memory/deleter.hpp>
#include <foonathan/memory/fallback_allocator.hpp>
#include <foonathan/memory/iteration_allocator.hpp>
#include <foonathan/memory/memory_pool.hpp>
#include <foonathan/memory/memory_pool_collection.hpp>
#include <foonathan/memory/memory_resource_adapter.hpp>
#include <foonathan/memory/memory_stack.hpp>
#include <foonathan/memory/segregator.hpp>
#include <foonathan/memory/smart_ptr.hpp>
#include <foonathan/memory/static_allocator.hpp>
#include <foonathan/memory/std_allocator.hpp>
#include <foonathan/memory/threading.hpp>
#include <foonathan/memory/tracking.hpp>

#include <functional>
#include <mutex>

#include "common/core.hpp"

using namespace vf;
using namespace foonathan::memory;

namespace
{
    void count_(const char* e)
    {
        vf::count(e);
    }
    void count_(const char* e, long n)
    {
        vf::count(e, n);
    }

    //=== a composable leaf: fixed byte budget, exact ownership test, every call checked against its own records ===//
    struct leaf_budget
    {
        std::size_t capacity;
        // a leaf that sits in (or below) the Default position of a fallback_allocator is only ever asked through the composable
        // try_ members; the routing kinds give exactly those leaves a budget below 1 MiB
        bool try_only() const
        {
            return capacity < (1u << 20);
        }
    };
    inline void throwing_interface_used(const char* what)
    {
        viol_nothrow("C03", "C03/" + cx().kind + "/throwing-interface-below-try",
                     std::string(what) + " of a leaf that the composition may only reach through try_ members was called (a try_ function must return null, not throw or grow)");
    }
    // (the tag makes leaves of one composition distinct types: nested fallback_allocators over the same allocator type do not
    //  compile, their ebo_storage bases become ambiguous - a build-time matter outside this family)
    template <int Tag>
    struct cleaf_t
    {
        using is_stateful = std::true_type;
        probe_handle                 s;
        std::shared_ptr<leaf_budget> b;
        cleaf_t(probe_handle h, std::size_t capacity) : s(std::move(h)), b(std::make_shared<leaf_budget>(leaf_budget{capacity})) {}
        bool fits(std::size_t n) const
        {
            return s->bytes_live + n <= b->capacity;
        }
        void* allocate_node(std::size_t size, std::size_t al)
        {
            if (b->try_only())
                throwing_interface_used("allocate_node");
            if (!fits(size))
                throw out_of_fixed_memory(allocator_info{"vf::cleaf", this}, size);
            return s->acquire(false, 1, size, al);
        }
        void* allocate_array(std::size_t c, std::size_t size, std::size_t al)
        {
            if (b->try_only())
                throwing_interface_used("allocate_array");
            if (!fits(c * size))
                throw out_of_fixed_memory(allocator_info{"vf::cleaf", this}, c * size);
            return s->acquire(true, c, size, al);
        }
        void* try_allocate_node(std::size_t size, std::size_t al) noexcept
        {
            return fits(size) ? s->acquire(false, 1, size, al) : nullptr;
        }
        void* try_allocate_array(std::size_t c, std::size_t size, std::size_t al) noexcept
        {
            return fits(c * size) ? s->acquire(true, c, size, al) : nullptr;
        }
        void deallocate_node(void* p, std::size_t size, std::size_t al) noexcept
        {
            if (b->try_only())
                throwing_interface_used("deallocate_node");
            s->release(false, p, 1, size, al);
        }
        void deallocate_array(void* p, std::size_t c, std::size_t size, std::size_t al) noexcept
        {
            if (b->try_only())
                throwing_interface_used("deallocate_array");
            s->release(true, p, c, size, al);
        }
        bool try_deallocate_node(void* p, std::size_t size, std::size_t al) noexcept
        {
            if (!s->live.count(static_cast<char*>(p)))
                return false;
            s->release(false, p, 1, size, al);
            return true;
        }
        bool try_deallocate_array(void* p, std::size_t c, std::size_t size, std::size_t al) noexcept
        {
            if (!s->live.count(static_cast<char*>(p)))
                return false;
            s->release(true, p, c, size, al);
            return true;
        }
        std::size_t max_node_size() const noexcept
        {
            return b->capacity;
        }
        std::size_t max_array_size() const noexcept
        {
            return b->capacity;
        }
        std::size_t max_alignment() const noexcept
        {
            return 64;
        }
    };

    // composable leaf that provides only the node functions: array requests reach it through the traits' defaults
    template <int Tag>
    struct cleaf_min_t
    {
        using is_stateful = std::true_type;
        cleaf_t<Tag> full;
        explicit cleaf_min_t(cleaf_t<Tag> f) : full(std::move(f)) {}
        void* allocate_node(std::size_t size, std::size_t al)
        {
            return full.allocate_node(size, al);
        }
        void deallocate_node(void* p, std::size_t size, std::size_t al) noexcept
        {
            full.deallocate_node(p, size, al);
        }
        void* try_allocate_node(std::size_t size, std::size_t al) noexcept
        {
            return full.try_allocate_node(size, al);
        }
        bool try_deallocate_node(void* p, std::size_t size, std::size_t al) noexcept
        {
            return full.try_deallocate_node(p, size, al);
        }
        std::size_t max_node_size() const noexcept
        {
            return full.max_node_size();
        }
        std::size_t max_alignment() const noexcept
        {
            return 64;
        }
    };

    // stateless leaf (its probe lives in a static): wrappers around it are stateful only through what they add themselves
    struct sl_leaf
    {
        using is_stateful = std::false_type;
        static probe_handle& h()
        {
            static probe_handle p;
            return p;
        }
        void* allocate_node(std::size_t size, std::size_t al)
        {
            return h()->acquire(false, 1, size, al);
        }
        void* allocate_array(std::size_t c, std::size_t size, std::size_t al)
        {
            return h()->acquire(true, c, size, al);
        }
        void deallocate_node(void* p, std::size_t size, std::size_t al) noexcept
        {
            h()->release(false, p, 1, size, al);
        }
        void deallocate_array(void* p, std::size_t c, std::size_t size, std::size_t al) noexcept
        {
            h()->release(true, p, c, size, al);
        }
        std::size_t max_node_size() const noexcept
        {
            return std::size_t(1) << 30;
        }
        std::size_t max_array_size() const noexcept
        {
            return std::size_t(1) << 30;
        }
        std::size_t max_alignment() const noexcept
        {
            return 4096;
        }
    };

    // a Segregatable of the user's own: nodes by their size, arrays by their *element* size (the two questions are different
    // functions; threshold_segregatable happens to answer both from the total size)
    template <class RawAllocator>
    class by_element_size : RawAllocator
    {
    public:
        using allocator_type = RawAllocator;
        by_element_size(std::size_t max_elem, RawAllocator a) : RawAllocator(std::move(a)), max_(max_elem) {}
        bool use_allocate_node(std::size_t size, std::size_t) noexcept
        {
            return size <= max_;
        }
        bool use_allocate_array(std::size_t, std::size_t size, std::size_t) noexcept
        {
            return size <= max_;
        }
        allocator_type& get_allocator() noexcept
        {
            return *this;
        }
        const allocator_type& get_allocator() const noexcept
        {
            return *this;
        }

    private:
        std::size_t max_;
    };

    struct leaves
    {
        std::vector<probe_handle> h;
        template <int Tag = 0>
        cleaf_t<Tag> make(const char* name, std::size_t cap, const char* prop)
        {
            h.push_back(make_probe(name, false, prop));
            return cleaf_t<Tag>(h.back(), cap);
        }
        probe_handle raw(const char* name, const char* prop)
        {
            h.push_back(make_probe(name, false, prop));
            return h.back();
        }
        void check()
        {
            for (auto& x : h)
                x->check();
        }
        bool balanced() const
        {
            for (auto& x : h)
                if (!x->balanced())
                    return false;
            return true;
        }
        long served() const
        {
            long n = 0;
            for (auto& x : h)
                n += x->served;
            return n;
        }
        long releases() const
        {
            long n = 0;
            for (auto& x : h)
                n += x->releases;
            return n;
        }
        // the leaf that holds p as a live block start
        probe_state* holder(const void* p) const
        {
            for (auto& x : h)
                if (x->live.count(static_cast<char*>(const_cast<void*>(p))))
                    return x.get();
            return nullptr;
        }
    };

    std::function<void(const std::string&)> g_after_op; // extra oracle of a routing kind, run after every operation

    //=== routing ===//
    // a composition of leaves (and real allocators) is driven through allocator_traits; each leaf checks that whatever it
    // handed out comes back to it, once, with the shape of its own allocation
    template <class Top, class Make>
    void routing_kind(const args& a, const char* name, Make make, std::size_t max_size, bool arrays = true)
    {
        std::string kind = name;
        if (a.kind != "all" && a.kind != kind)
            return;
        using tr  = allocator_traits<Top>;
        for (long c = a.from; c < a.to; ++c)
            run_case(kind, c, [&] {
                auto   r = case_rng(a.seed, a.group, kind, c);
                leaves lv;
                // what a leaf sees (shape of a release, a release of memory it does not hold) is the composition's forwarding
                also_scope as("C09", "C08");
                {
                    auto   top = make(lv, r);
                    shadow sh;
                    false_report_guard frg;
                    auto   owns = [](const char*, std::size_t) { return true; };
                    while (cx().step < a.ops)
                    {
                        // phases: fill until the default allocator is full and spills into the fallback, then drain
                        bool filling = (cx().step / 40) % 2 == 0;
                        if (r.chance(filling ? 75 : 25) || sh.live.empty())
                        {
                            bool        arr   = arrays && r.chance(30);
                            std::size_t size  = r.range(1, max_size);
                            std::size_t count = arr ? r.range(1, 4) : 1;
                            std::size_t align = std::size_t(1) << r.below(4);
                            while (align > detail::alignment_for(size))
                                align >>= 1;
                            op("%s %zux%zu/%zu", arr ? "array" : "node", count, size, align);
                            auto  served0 = lv.served();
                            void* p;
                            try
                            {
                                p = arr ? tr::allocate_array(*top, count, size, align) : tr::allocate_node(*top, size, align);
                            }
                            catch (out_of_memory&)
                            {
                                count_("exhausted");
                                lv.check();
                                continue;
                            }
                            catch (bad_allocation_size&)
                            {
                                count_("refused");
                                lv.check();
                                continue;
                            }
                            lv.check();
                            sh.check_new_fill = false;
                            sh.add(owns, p, arr, count, size, align, lv.served() != served0 ? 1 : 0);
                            count_(arr ? "alloc_array" : "alloc_node");
                            if (lv.served() != served0)
                                count_("served_by_leaf");
                            else
                                count_("served_by_real_allocator");
                        }
                        else
                        {
                            auto it = sh.pick(r);
                            auto p  = it->first;
                            auto e  = sh.retire(p);
                            op("free #%u (%s %zux%zu)", e.id, e.arr ? "array" : "node", e.count, e.size);
                            auto rel0 = lv.releases();
                            if (e.arr)
                                tr::deallocate_array(*top, p, e.count, e.size, e.align);
                            else
                                tr::deallocate_node(*top, p, e.size, e.align);
                            lv.check();
                            bool leaf_released = lv.releases() != rel0;
                            if (bool(e.tag) != leaf_released)
                                viol("C08", "C08/" + kind + "/wrong-sub-allocator",
                                     "memory that was served by %s was released to %s", e.tag ? "a leaf" : "the real default allocator",
                                     leaf_released ? "a leaf" : "the real default allocator");
                            count_("release");
                            flag("release");
                        }
                        frg.check("routing operation");
                        if (g_after_op)
                            g_after_op(kind);
                        if (cx().step % 16 == 0)
                            sh.sweep();
                    }
                    // drain
                    while (!sh.live.empty())
                    {
                        auto p = sh.live.begin()->first;
                        auto e = sh.retire(p);
                        if (e.arr)
                            tr::deallocate_array(*top, p, e.count, e.size, e.align);
                        else
                            tr::deallocate_node(*top, p, e.size, e.align);
                        lv.check();
                    }
                    frg.check("drain");
                }
                lv.check();
                if (!lv.balanced())
                    viol("C08", "C08/" + kind + "/leaf-not-balanced", "after everything was released through the composition a leaf still holds live blocks");
                flag("routing");
            });
    }
    //=== siblings ===//
    // adapters so that different composable allocator types can be driven uniformly
    struct sib
    {
        virtual ~sib() {}
        virtual bool        alloc(rng& r, void*& p, bool& arr, std::size_t& count, std::size_t& size, std::size_t& align) = 0;
        virtual bool        try_dealloc(void* p, bool arr, std::size_t count, std::size_t size, std::size_t align)      = 0;
        virtual std::string state()                                                                                       = 0; // capacity figures
        virtual std::size_t typical_size()                                                                                = 0;
    };
    template <class A>
    struct sib_base : sib
    {
        using tr  = allocator_traits<A>;
        using ctr = composable_allocator_traits<A>;
        std::unique_ptr<A> a;
        bool try_dealloc(void* p, bool arr, std::size_t count, std::size_t size, std::size_t align) override
        {
            return arr ? ctr::try_deallocate_array(*a, p, count, size, align) : ctr::try_deallocate_node(*a, p, size, align);
        }
    };
    template <class PT>
    struct sib_pool : sib_base<memory_pool<PT, probe_raw>>
    {
        using A = memory_pool<PT, probe_raw>;
        sib_pool(probe_handle h, rng& r)
        {
            std::size_t ns = std::is_same<PT, small_node_pool>::value ? r.range(4, 24) : r.range(8, 40);
            this->a.reset(new A(ns, (A::min_block_size(ns, r.range(4, 20)) + 15) / 16 * 16, probe_raw(h)));
        }
        bool alloc(rng& r, void*& p, bool& arr, std::size_t& count, std::size_t& size, std::size_t& align) override
        {
            A& a  = *this->a;
            arr   = PT::value && r.chance(25);
            count = arr ? r.range(1, 4) : 1;
            size  = r.range(1, a.node_size());
            align = 1;
            if (arr && count * size > allocator_traits<A>::max_array_size(a))
                arr = false, count = 1;
            try
            {
                p = arr ? allocator_traits<A>::allocate_array(a, count, size, align) : allocator_traits<A>::allocate_node(a, size, align);
            }
            catch (bad_array_size&)
            {
                return false;
            }
            return true;
        }
        std::string state() override
        {
            return fmt("%zu/%zu", this->a->capacity_left(), this->a->next_capacity());
        }
        std::size_t typical_size() override
        {
            return this->a->node_size();
        }
    };
    template <class PT, class BD>
    struct sib_coll : sib_base<memory_pool_collection<PT, BD, probe_raw>>
    {
        using A = memory_pool_collection<PT, BD, probe_raw>;
        sib_coll(probe_handle h, rng& r)
        {
            std::size_t m     = r.range(8, 32);
            std::size_t pools = std::is_same<BD, identity_buckets>::value ? m : 6;
            this->a.reset(new A(m, (pools * 80 + pools * 4 * (m + 24) + 15) / 16 * 16, probe_raw(h)));
        }
        bool alloc(rng& r, void*& p, bool& arr, std::size_t& count, std::size_t& size, std::size_t& align) override
        {
            A& a  = *this->a;
            arr   = PT::value && r.chance(25);
            count = arr ? r.range(1, 3) : 1;
            size  = r.range(1, a.max_node_size());
            align = 1;
            try
            {
                p = arr ? allocator_traits<A>::allocate_array(a, count, size, align) : allocator_traits<A>::allocate_node(a, size, align);
            }
            catch (bad_array_size&)
            {
                return false;
            }
            return true;
        }
        std::string state() override
        {
            std::string s = fmt("%zu:", this->a->capacity_left());
            for (std::size_t i = 1; i <= this->a->max_node_size(); ++i)
                s += fmt("%zu,", this->a->pool_capacity_left(i));
            return s;
        }
        std::size_t typical_size() override
        {
            return this->a->max_node_size();
        }
    };
    struct sib_stack : sib_base<memory_stack<probe_raw>>
    {
        using A = memory_stack<probe_raw>;
        sib_stack(probe_handle h, rng& r)
        {
            a.reset(new A(r.range(8, 40) * 16, probe_raw(h)));
        }
        bool alloc(rng& r, void*& p, bool& arr, std::size_t& count, std::size_t& size, std::size_t& align) override
        {
            arr   = false;
            count = 1;
            size  = r.range(1, 48);
            align = std::size_t(1) << r.below(4);
            p     = a->allocate(size, align);
            return true;
        }
        std::string state() override
        {
            return fmt("%zu", a->capacity_left());
        }
        std::size_t typical_size() override
        {
            return 16;
        }
    };
    struct sib_iter : sib_base<iteration_allocator<2, probe_raw>>
    {
        using A = iteration_allocator<2, probe_raw>;
        sib_iter(probe_handle h, rng& r)
        {
            a.reset(new A(r.range(20, 60) * 16, probe_raw(h)));
        }
        bool alloc(rng& r, void*& p, bool& arr, std::size_t& count, std::size_t& size, std::size_t& align) override
        {
            arr   = false;
            count = 1;
            size  = r.range(1, 24);
            align = 1;
            p     = a->try_allocate(size, align);
            return p != nullptr;
        }
        std::string state() override
        {
            return fmt("%zu,%zu", a->capacity_left(0), a->capacity_left(1));
        }
        std::size_t typical_size() override
        {
            return 16;
        }
    };

    struct live_t
    {
        char*       p;
        bool        arr;
        std::size_t count, size, align;
        int         owner; // -1: the static_allocator sibling
        unsigned    id;
    };

    template <class Make>
    void siblings_kind(const args& a, const char* name, Make make)
    {
        std::string kind = name;
        if (a.kind != "all" && a.kind != kind)
            return;
        for (long c = a.from; c < a.to; ++c)
            run_case(kind, c, [&] {
                auto r = case_rng(a.seed, a.group, kind, c);
                // one upstream for all siblings: blocks are carved back to back from one region
                auto h         = make_probe("shared", false, "C08");
                h->exact_align = false;
                h->use_region(std::size_t(1) << 20, 0);
                const int N = 3;
                std::unique_ptr<sib> s[N];
                // a static_allocator whose storage lies between two siblings' blocks: its first allocation starts exactly one
                // past the end of sibling 0's block, its last one can end exactly where sibling 1's block begins
                s[0] = make(h, r);
                using storage_t = static_allocator_storage<256>;
                auto st_mem     = h->region_cur;
                VF_UNPOISON(st_mem, sizeof(storage_t));
                h->region_cur += sizeof(storage_t);
                auto             storage = ::new (static_cast<void*>(st_mem)) storage_t;
                static_allocator stat(*storage);
                s[1] = make(h, r);
                s[2] = make(h, r);
                h->check();
                std::vector<live_t> live;
                unsigned            next_id = 1;
                false_report_guard  frg;
                auto fill = [](live_t& l) {
                    for (std::size_t i = 0; i < l.count * l.size; ++i)
                        l.p[i] = (char)shadow::pat(l.id, i);
                };
                auto intact = [&](const char* when) {
                    for (auto& l : live)
                        for (std::size_t i = 0; i < l.count * l.size; ++i)
                            if ((unsigned char)l.p[i] != shadow::pat(l.id, i))
                                viol("C08", "C08/" + kind + "/refused-deallocation-wrote", "live allocation #%u changed (%s)", l.id, when);
                };
                for (int guard = 0; cx().step < a.ops && guard < a.ops * 30; ++guard) // (full fixed-size siblings make some rounds no-ops)
                {
                    auto x = r.below(100);
                    if (x < 45)
                    {
                        int    o = int(r.below(N));
                        live_t l;
                        void*  p;
                        if (!s[o]->alloc(r, p, l.arr, l.count, l.size, l.align))
                            continue;
                        h->check();
                        l.p     = static_cast<char*>(p);
                        l.owner = o;
                        l.id    = next_id++;
                        op("sibling %d: %s %zux%zu/%zu -> #%u", o, l.arr ? "array" : "node", l.count, l.size, l.align, l.id);
                        for (auto& q : live)
                            if (l.p < q.p + q.count * q.size && q.p < l.p + l.count * l.size)
                                viol("C01", "C01/" + kind + "/overlap", "allocations of two siblings overlap");
                        fill(l);
                        live.push_back(l);
                        count_("alloc");
                    }
                    else if (x < 55)
                    {
                        // static sibling: small nodes; sometimes exactly what is left, so that it ends at the next block's start
                        live_t l;
                        l.arr   = false;
                        l.count = 1;
                        l.align = 1;
                        auto left = stat.max_node_size();
                        if (left <= 2 * detail::debug_fence_size)
                            continue;
                        left -= 2 * detail::debug_fence_size;
                        l.size = r.chance(20) ? left : std::min<std::size_t>(left, r.range(1, 24));
                        l.p    = static_cast<char*>(stat.allocate_node(l.size, 1));
                        l.owner = -1;
                        l.id    = next_id++;
                        op("static sibling: node %zu -> #%u (%s)", l.size, l.id,
                           l.p == st_mem ? "starts one past the end of sibling 0's block" :
                           l.p + l.size == st_mem + sizeof(storage_t) ? "ends where sibling 1's block starts" : "inside");
                        if (l.p == st_mem || l.p + l.size == st_mem + sizeof(storage_t))
                            flag("exact-boundary");
                        fill(l);
                        live.push_back(l);
                        count_("alloc_static");
                    }
                    else if (!live.empty())
                    {
                        auto k = r.below(live.size());
                        auto l = live[k];
                        // offered to everybody who did not hand it out: refused, and nothing changes
                        for (int j = 0; j < N; ++j)
                        {
                            if (j == l.owner)
                                continue;
                            auto before = s[j]->state();
                            // the caller describes the memory as it knows it; for the static sibling's nodes also as something the
                            // allocator could have handed out
                            std::size_t size = l.owner == -1 ? std::min(l.size, s[j]->typical_size()) : l.size;
                            bool        res  = s[j]->try_dealloc(l.p, l.arr, l.count, size, l.align);
                            h->check();
                            if (res)
                                viol("C08", "C08/" + kind + "/accepted-foreign",
                                     "sibling %d accepted memory handed out by %s (allocation #%u, %zu bytes%s)", j,
                                     l.owner == -1 ? "the static_allocator next to its block" : "another sibling", l.id, l.count * l.size,
                                     l.p == st_mem ? ", starting exactly one past the end of its block" : "");
                            if (s[j]->state() != before)
                                viol("C08", "C08/" + kind + "/refused-deallocation-changed-state", "a refused try_deallocate changed the capacity figures: %s -> %s",
                                     before.c_str(), s[j]->state().c_str());
                            count_("foreign_offers");
                        }
                        intact("after refused deallocations");
                        if (l.owner >= 0)
                        {
                            op("sibling %d: try_deallocate own #%u", l.owner, l.id);
                            bool res = s[l.owner]->try_dealloc(l.p, l.arr, l.count, l.size, l.align);
                            h->check();
                            if (!res)
                                viol("C08", "C08/" + kind + "/refused-own", "sibling %d refused memory it handed out (#%u)", l.owner, l.id);
                            live.erase(live.begin() + long(k));
                            count_("own_releases");
                            flag("release");
                        }
                    }
                    frg.check("sibling operation");
                }
                intact("end");
                for (int j = 0; j < N; ++j)
                    s[j].reset();
                h->check();
                if (!h->balanced())
                    viol("C05", "C05/" + kind + "/not-balanced-at-destruction", "upstream blocks outstanding after all siblings were destroyed");
                flag("siblings");
            });
    }

    //=== forwarding (C09) ===//
    struct track_log
    {
        long node_alloc = 0, array_alloc = 0, node_dealloc = 0, array_dealloc = 0;
        void*       last_ptr = nullptr;
        std::size_t last_count = 0, last_size = 0, last_align = 0;
    };
    struct tracker
    {
        track_log* t;
        void on_node_allocation(void* p, std::size_t s, std::size_t a) noexcept
        {
            ++t->node_alloc;
            t->last_ptr   = p;
            t->last_count = 1;
            t->last_size  = s;
            t->last_align = a;
        }
        void on_array_allocation(void* p, std::size_t c, std::size_t s, std::size_t a) noexcept
        {
            ++t->array_alloc;
            t->last_ptr   = p;
            t->last_count = c;
            t->last_size  = s;
            t->last_align = a;
        }
        void on_node_deallocation(void* p, std::size_t s, std::size_t a) noexcept
        {
            ++t->node_dealloc;
            t->last_ptr   = p;
            t->last_count = 1;
            t->last_size  = s;
            t->last_align = a;
        }
        void on_array_deallocation(void* p, std::size_t c, std::size_t s, std::size_t a) noexcept
        {
            ++t->array_dealloc;
            t->last_ptr   = p;
            t->last_count = c;
            t->last_size  = s;
            t->last_align = a;
        }
    };

    // a leaf whose max_node_size() the harness changes over time
    struct vary_state
    {
        std::size_t max_node = 1000;
    };
    struct vary_leaf : probe_raw
    {
        std::shared_ptr<vary_state> v;
        vary_leaf(probe_handle h, std::shared_ptr<vary_state> vs) : probe_raw(std::move(h)), v(std::move(vs)) {}
        std::size_t max_node_size() const noexcept
        {
            return v->max_node;
        }
    };

    struct fwd_env
    {
        leaves                      lv;
        track_log                   tl;
        std::shared_ptr<vary_state> vary = std::make_shared<vary_state>();
        std::mutex                  mtx;
        std::vector<std::shared_ptr<void>> keep; // moved-from compositions / holders; destroyed before the members above
    };

    // With nothing live, a second composition of the same type is built, some memory is taken from it, and it is move-assigned onto
    // the composition under test: what it handed out must be released correctly through the assigned-to object.
    template <class Ptr, class Make>
    auto move_assign_top(Ptr& top, fwd_env& env, rng& r, Make& make, shadow& sh, const std::string& kind, std::size_t max_size, std::size_t max_align)
        -> decltype(*top = std::move(*top), void())
    {
        using Top = typename std::decay<decltype(*top)>::type;
        using tr  = allocator_traits<Top>;
        auto other = make(env, r);
        op("move-assign the composition from a second one that has handed out memory");
        auto owns = [&](const char* p, std::size_t) { return env.lv.holder(p) != nullptr; };
        for (int i = 0, n = int(r.range(1, 4)); i < n; ++i)
        {
            std::size_t size  = std::min<std::size_t>(r.range(1, 200), max_size);
            std::size_t align = std::size_t(1) << r.below(5);
            while (align > max_align)
                align >>= 1;
            void* p = tr::allocate_node(*other, size, align);
            sh.add(owns, p, false, 1, size, align);
        }
        *top = std::move(*other);
        env.keep.push_back(std::shared_ptr<void>(std::move(other))); // holders (referenced allocators) must outlive the assigned-to object
        env.lv.check();
        flag("move");
        vf::count("composition_move_assignments");
        (void)kind;
    }
    inline void move_assign_top(...) {}

    // Top is driven through allocator_traits; exactly one leaf call per top-level call, release mirrors the leaf allocation
    template <class Top, class Make>
    void forward_kind(const args& a, const char* name, Make make, std::size_t max_size, std::size_t max_align, bool tracked, bool composable_too = false)
    {
        std::string kind = name;
        if (a.kind != "all" && a.kind != kind)
            return;
        using tr = allocator_traits<Top>;
        for (long c = a.from; c < a.to; ++c)
            run_case(kind, c, [&] {
                auto    r = case_rng(a.seed, a.group, kind, c);
                fwd_env env;
                {
                    auto   top = make(env, r);
                    shadow sh;
                    sh.check_new_fill = false;
                    auto owns = [&](const char* p, std::size_t) { return env.lv.holder(p) != nullptr; };
                    while (cx().step < a.ops)
                    {
                        if (r.chance(8))
                        {
                            // the leaf's maximum node size changes over time (where the composition uses such a leaf)
                            env.vary->max_node = r.chance(50) ? r.range(50, 400) : r.range(400, 3000);
                            op("leaf max_node_size := %zu", env.vary->max_node);
                        }
                        if (sh.live.empty() && r.chance(15))
                            move_assign_top(top, env, r, make, sh, kind, max_size, max_align);
                        if (r.chance(55) || sh.live.empty())
                        {
                            bool        arr = r.chance(35);
                            std::size_t size;
                            switch (r.below(5))
                            {
                            case 0:
                                size = r.range(1, 16);
                                break;
                            case 1:
                                size = r.range(1, 300);
                                break;
                            case 2: // around thresholds used by the segregators (64, 256) and the varying maximum
                                size = std::size_t(r.chance(50) ? 64 : 256) + r.below(3) - 1;
                                break;
                            case 3:
                                size = r.range(1, max_size);
                                break;
                            default:
                                size = r.range(1, 4000);
                                break;
                            }
                            size              = std::min(size, max_size);
                            std::size_t count = arr ? (r.chance(30) ? 1 : r.range(1, 5)) : 1;
                            std::size_t align = std::size_t(1) << r.below(5);
                            while (align > max_align)
                                align >>= 1;
                            op("%s %zux%zu/%zu", arr ? "array" : "node", count, size, align);
                            auto  served0 = env.lv.served();
                            auto  tl0     = env.tl;
                            void* p       = arr ? tr::allocate_array(*top, count, size, align) : tr::allocate_node(*top, size, align);
                            env.lv.check();
                            if (env.lv.served() != served0 + 1)
                                viol("C09", "C09/" + kind + "/not-one-leaf-request", "one top-level request caused %ld leaf allocations", env.lv.served() - served0);
                            auto hold = env.lv.holder(p);
                            if (!hold)
                                viol("C09", "C09/" + kind + "/pointer-not-from-leaf", "the returned pointer is not the start of a live leaf allocation");
                            auto& rec = hold->live[static_cast<char*>(p)];
                            if (rec.bytes < count * size)
                                viol("C09", "C09/" + kind + "/leaf-request-too-small", "request for %zu bytes reached the leaf as %zu bytes", count * size, rec.bytes);
                            if (rec.align < align)
                                viol("C09", "C09/" + kind + "/leaf-alignment-too-small", "request aligned %zu reached the leaf with alignment %zu", align,
                                     rec.align);
                            if (tracked)
                            {
                                long dn = env.tl.node_alloc - tl0.node_alloc, da = env.tl.array_alloc - tl0.array_alloc;
                                if (dn + da != 1 || env.tl.node_dealloc != tl0.node_dealloc || env.tl.array_dealloc != tl0.array_dealloc)
                                    viol("C09", "C09/" + kind + "/tracker-count", "one successful allocation produced %ld node and %ld array allocation callbacks",
                                         dn, da);
                                if (env.tl.last_ptr != p || env.tl.last_count * env.tl.last_size != count * size || (da == 1) != arr)
                                    viol("C09", "C09/" + kind + "/tracker-shape", "the tracker saw (%s, %zu x %zu) for a (%s, %zu x %zu) request",
                                         da ? "array" : "node", env.tl.last_count, env.tl.last_size, arr ? "array" : "node", count, size);
                            }
                            sh.add(owns, p, arr, count, size, align);
                            count_(arr ? "alloc_array" : "alloc_node");
                            if (sh.live.size() > 1)
                                flag("multi-live");
                        }
                        else
                        {
                            auto it = sh.pick(r);
                            auto p  = it->first;
                            auto e  = sh.retire(p);
                            op("free #%u (%s %zux%zu/%zu)", e.id, e.arr ? "array" : "node", e.count, e.size, e.align);
                            auto rel0 = env.lv.releases();
                            auto tl0  = env.tl;
                            if (e.arr)
                                tr::deallocate_array(*top, p, e.count, e.size, e.align);
                            else
                                tr::deallocate_node(*top, p, e.size, e.align);
                            env.lv.check(); // unknown pointer / other leaf / shape differing from the leaf allocation are raised here
                            if (env.lv.releases() != rel0 + 1)
                                viol("C09", "C09/" + kind + "/not-one-leaf-release", "one top-level release caused %ld leaf releases", env.lv.releases() - rel0);
                            if (tracked)
                            {
                                long dn = env.tl.node_dealloc - tl0.node_dealloc, da = env.tl.array_dealloc - tl0.array_dealloc;
                                if (dn + da != 1 || env.tl.node_alloc != tl0.node_alloc || env.tl.array_alloc != tl0.array_alloc)
                                    viol("C09", "C09/" + kind + "/tracker-count", "one release produced %ld node and %ld array deallocation callbacks", dn, da);
                                if (env.tl.last_ptr != p || (da == 1) != e.arr)
                                    viol("C09", "C09/" + kind + "/tracker-shape", "the tracker saw a %s release for a %s", da ? "array" : "node", e.arr ? "array" : "node");
                            }
                            count_("release");
                            flag("release");
                        }
                        if (cx().step % 16 == 0)
                            sh.sweep();
                    }
                    while (!sh.live.empty())
                    {
                        auto p = sh.live.begin()->first;
                        auto e = sh.retire(p);
                        if (e.arr)
                            tr::deallocate_array(*top, p, e.count, e.size, e.align);
                        else
                            tr::deallocate_node(*top, p, e.size, e.align);
                        env.lv.check();
                    }
                }
                env.lv.check();
                if (!env.lv.balanced())
                    viol("C09", "C09/" + kind + "/leaf-not-balanced", "after everything was released the leaf still holds live blocks");
                flag("forward");
                (void)composable_too;
            });
    }

    // std_allocator, deleters and smart pointer helpers over a leaf
    template <std::size_t S, std::size_t A>
    struct alignas(A) blob
    {
        unsigned char v[S];
    };
    struct base_t
    {
        virtual ~base_t() {}
        int tag = 1;
    };
    template <std::size_t S>
    struct derived_t : base_t
    {
        unsigned char payload[S];
    };

    template <class T>
    void std_alloc_round(fwd_env& env, probe_raw& leaf, rng& r, const std::string& kind)
    {
        std_allocator<T, probe_raw> sa(leaf);
        std::vector<std::pair<T*, std::size_t>> got;
        for (int i = 0; i < 12; ++i)
        {
            std::size_t n = r.chance(50) ? 1 : r.range(1, 6);
            op("std_allocator<%zu/%zu>::allocate(%zu)", sizeof(T), alignof(T), n);
            auto served0 = env.lv.served();
            T*   p       = sa.allocate(n);
            env.lv.check();
            if (env.lv.served() != served0 + 1)
                viol("C09", "C09/" + kind + "/not-one-leaf-request", "std_allocator::allocate(%zu) caused %ld leaf allocations", n, env.lv.served() - served0);
            auto hold = env.lv.holder(p);
            if (!hold)
                viol("C09", "C09/" + kind + "/pointer-not-from-leaf", "std_allocator returned a pointer that is not a leaf allocation");
            auto& rec = hold->live[reinterpret_cast<char*>(p)];
            if (rec.bytes < n * sizeof(T) || rec.align < alignof(T))
                viol("C09", "C09/" + kind + "/leaf-request-too-small", "allocate(%zu) of a %zu-byte type aligned %zu reached the leaf as %zu bytes aligned %zu", n,
                     sizeof(T), alignof(T), rec.bytes, rec.align);
            std::memset(static_cast<void*>(p), 0x33, n * sizeof(T));
            got.push_back({p, n});
            count_("std_allocate");
        }
        while (!got.empty())
        {
            auto k    = r.below(got.size());
            auto rel0 = env.lv.releases();
            sa.deallocate(got[k].first, got[k].second);
            env.lv.check();
            if (env.lv.releases() != rel0 + 1)
                viol("C09", "C09/" + kind + "/not-one-leaf-release", "std_allocator::deallocate caused %ld leaf releases", env.lv.releases() - rel0);
            got.erase(got.begin() + long(k));
        }
    }

    void std_and_smart(const args& a)
    {
        std::string kind = "std_allocator+deleters";
        if (a.kind != "all" && a.kind != kind)
            return;
        for (long c = a.from; c < a.to; ++c)
            run_case(kind, c, [&] {
                auto    r = case_rng(a.seed, a.group, kind, c);
                fwd_env env;
                // std_allocator, the deleters and the smart-pointer helpers are also what C10 is about (every piece of memory goes back to
                // the allocator it came from, as what it was obtained as)
                also_scope as("C10", "C09");
                {
                    probe_raw leaf(env.lv.raw("leaf", "C09"));
                    op("std_allocator over value types of 1..70000 bytes");
                    std_alloc_round<char>(env, leaf, r, kind);
                    std_alloc_round<std::int64_t>(env, leaf, r, kind);
                    std_alloc_round<blob<24, 8>>(env, leaf, r, kind);
                    std_alloc_round<blob<48, 16>>(env, leaf, r, kind);
                    std_alloc_round<blob<3, 1>>(env, leaf, r, kind);
                    std_alloc_round<blob<70000, 4>>(env, leaf, r, kind);
                    op("allocate_unique / allocate_shared / polymorphic deleter");
                    {
                        auto u1 = allocate_unique<blob<24, 8>>(leaf);
                        auto u2 = allocate_unique<blob<70000, 16>>(leaf);
                        auto u3 = allocate_unique<blob<5, 1>[]>(leaf, r.range(1, 9));
                        auto u4 = allocate_unique<std::int64_t[]>(leaf, 1);
                        auto s1 = allocate_shared<blob<40, 8>>(leaf);
                        env.lv.check();
                        // type-erased deleter over a type larger than 64 KiB and over a small one
                        unique_base_ptr<base_t, probe_raw> b1(allocate_unique<derived_t<40>>(leaf));
                        unique_base_ptr<base_t, probe_raw> b2(allocate_unique<derived_t<70000>>(leaf));
                        unique_base_ptr<base_t, probe_raw> b3(allocate_unique<derived_t<65536 - 16>>(leaf));
                        env.lv.check();
                        // the non-destroying counterpart: allocator_deallocator converted to allocator_polymorphic_deallocator, with a
                        // derived type that is larger and more strictly aligned than its base
                        {
                            struct alignas(64) wide_t : base_t
                            {
                                unsigned char payload[100];
                            };
                            void* m = allocator_traits<probe_raw>::allocate_node(leaf, sizeof(wide_t), alignof(wide_t));
                            auto  w = ::new (m) wide_t;
                            std::unique_ptr<wide_t, allocator_deallocator<wide_t, probe_raw>> raw(w, allocator_deallocator<wide_t, probe_raw>(leaf));
                            std::unique_ptr<base_t, allocator_polymorphic_deallocator<base_t, probe_raw>> erased(std::move(raw));
                            erased->~base_t(); // the deallocator only releases
                            env.lv.check();
                        }
                        env.lv.check();
                        {
                            // a constructor that throws: the node obtained for the object goes back to the leaf, as the node it was
                            struct thrower
                            {
                                char c[24];
                                thrower()
                                {
                                    throw 17;
                                }
                            };
                            auto live0 = env.lv.h[0]->live.size();
                            try
                            {
                                auto t = allocate_unique<thrower>(leaf);
                                viol("C09", "C09/" + kind + "/harness", "the constructor failure did not propagate");
                            }
                            catch (int)
                            {
                            }
                            try
                            {
                                auto t = allocate_unique<thrower>(any_allocator{}, leaf);
                                viol("C09", "C09/" + kind + "/harness", "the constructor failure did not propagate");
                            }
                            catch (int)
                            {
                            }
                            env.lv.check();
                            if (env.lv.h[0]->live.size() != live0)
                                viol("C09", "C09/" + kind + "/memory-not-returned",
                                     "allocate_unique with a throwing constructor left %zu blocks on the allocator", env.lv.h[0]->live.size() - live0);
                        }
                        count_("smart_pointers", 9);
                        if (r.chance(50))
                            b2.reset();
                        env.lv.check();
                    }
                    env.lv.check();
                    // through the type-erased reference
                    {
                        auto u = allocate_unique<blob<100, 4>>(any_allocator{}, leaf);
                        auto v = allocate_unique<blob<7, 1>[]>(any_allocator{}, leaf, 3);
                        env.lv.check();
                    }
                    env.lv.check();
                }
                if (!env.lv.balanced())
                    viol("C09", "C09/" + kind + "/leaf-not-balanced", "smart pointers were destroyed but the leaf still holds live blocks");
                flag("forward");
            });
    }
} // namespace

int main(int argc, char** argv)
{
    auto a = parse_args(argc, argv, "h_compose");
    install_recording_handlers();
    cx().nontrivial_rule = [](const std::set<std::string>& f) { return (f.count("routing") || f.count("siblings") || f.count("forward")) != 0; };
    if (a.group == "routing")
    {
        using cleaf = cleaf_t<0>;
        using FB    = fallback_allocator<cleaf_t<0>, cleaf_t<1>>;
        using FBx   = fallback_allocator<cleaf_t<2>, cleaf_t<3>>;
        using FB3   = fallback_allocator<FB, cleaf_t<2>>;
        using FBr   = fallback_allocator<cleaf_t<2>, FB>;
        using FB4   = fallback_allocator<FB, FBx>;
        routing_kind<FB>(a, "fallback<leaf,leaf>", [](leaves& l, rng& r) {
            return std::unique_ptr<FB>(new FB(l.make<0>("A", r.range(100, 600), "C08"), l.make<1>("B", 1 << 20, "C08")));
        }, 64);
        routing_kind<FB3>(a, "fallback<fallback<leaf,leaf>,leaf>", [](leaves& l, rng& r) {
            return std::unique_ptr<FB3>(new FB3(FB(l.make<0>("A", r.range(100, 400), "C08"), l.make<1>("B", r.range(100, 600), "C08")), l.make<2>("C", 1 << 20, "C08")));
        }, 64);
        routing_kind<FBr>(a, "fallback<leaf,fallback<leaf,leaf>>", [](leaves& l, rng& r) {
            return std::unique_ptr<FBr>(new FBr(l.make<2>("A", r.range(100, 400), "C08"), FB(l.make<0>("B", r.range(100, 600), "C08"), l.make<1>("C", 1 << 20, "C08"))));
        }, 64);
        routing_kind<FB4>(a, "fallback<fallback<leaf,leaf>,fallback<leaf,leaf>>", [](leaves& l, rng& r) {
            return std::unique_ptr<FB4>(new FB4(FB(l.make<0>("A", r.range(80, 300), "C08"), l.make<1>("B", r.range(80, 300), "C08")),
                                                FBx(l.make<2>("C", r.range(100, 600), "C08"), l.make<3>("D", 1 << 20, "C08"))));
        }, 64);
        using AL = aligned_allocator<FB>;
        routing_kind<AL>(a, "aligned<fallback<leaf,leaf>>", [](leaves& l, rng& r) {
            return std::unique_ptr<AL>(new AL(std::size_t(1) << r.below(4), FB(l.make<0>("A", r.range(100, 600), "C08"), l.make<1>("B", 1 << 20, "C08"))));
        }, 64);
        using TA = tracked_allocator<tracker, FB3>;
        static track_log dummy;
        routing_kind<TA>(a, "tracked<fallback<fallback<leaf,leaf>,leaf>>", [](leaves& l, rng& r) {
            return std::unique_ptr<TA>(new TA(tracker{&dummy}, FB3(FB(l.make<0>("A", r.range(100, 400), "C08"), l.make<1>("B", r.range(100, 600), "C08")), l.make<2>("C", 1 << 20, "C08"))));
        }, 64);
        using PoolF = memory_pool<node_pool, fixed_block_allocator<probe_raw>>;
        using FBp   = fallback_allocator<PoolF, cleaf>;
        routing_kind<FBp>(a, "fallback<pool<node>/fixed,leaf>", [](leaves& l, rng& r) {
            return std::unique_ptr<FBp>(new FBp(PoolF(32, PoolF::min_block_size(32, r.range(3, 20)), probe_raw(make_probe("raw", false, "C05"))), l.make("B", 1 << 20, "C08")));
        }, 48, false);
        using PoolA = memory_pool<array_pool, fixed_block_allocator<probe_raw>>;
        using FBa   = fallback_allocator<PoolA, cleaf>;
        routing_kind<FBa>(a, "fallback<pool<array>/fixed,leaf>", [](leaves& l, rng& r) {
            return std::unique_ptr<FBa>(new FBa(PoolA(16, PoolA::min_block_size(16, r.range(6, 40)), probe_raw(make_probe("raw", false, "C05"))), l.make("B", 1 << 20, "C08")));
        }, 24, true);
        using StackF = memory_stack<fixed_block_allocator<probe_raw>>;
        using FBs    = fallback_allocator<StackF, cleaf>;
        routing_kind<FBs>(a, "fallback<stack/fixed,leaf>", [](leaves& l, rng& r) {
            return std::unique_ptr<FBs>(new FBs(StackF(r.range(200, 900), probe_raw(make_probe("raw", false, "C05"))), l.make("B", 1 << 20, "C08")));
        }, 64);
        using CollF = memory_pool_collection<node_pool, log2_buckets, fixed_block_allocator<probe_raw>>;
        using FBc   = fallback_allocator<CollF, cleaf>;
        routing_kind<FBc>(a, "fallback<coll<node,log2>/fixed,leaf>", [](leaves& l, rng& r) {
            return std::unique_ptr<FBc>(new FBc(CollF(32, r.range(900, 2500), probe_raw(make_probe("raw", false, "C05"))), l.make("B", 1 << 20, "C08")));
        }, 48, false);
        // a tracked allocator as the default of a fallback: driven through its composable members; the tracker must see exactly
        // the operations that succeeded on its allocator, none for failed try_ calls
        using TRD = tracked_allocator<tracker, cleaf_t<0>>;
        using FBt = fallback_allocator<TRD, cleaf_t<1>>;
        static track_log tlog;
        static leaves*   cur_leaves = nullptr;
        g_after_op = [](const std::string& kind) {
            auto& A = *cur_leaves->h[0];
            // a tracker that is told about memory its allocator never handed out: the refused composable deallocation changed something
            also_scope as("C08", "C09");
            if (tlog.node_alloc + tlog.array_alloc != A.served || tlog.node_dealloc + tlog.array_dealloc != A.releases)
                viol("C09", "C09/" + kind + "/tracker-count", "the tracked default allocator served %ld and released %ld blocks, its tracker saw %ld allocations and %ld deallocations",
                     A.served, A.releases, tlog.node_alloc + tlog.array_alloc, tlog.node_dealloc + tlog.array_dealloc);
        };
        routing_kind<FBt>(a, "fallback<tracked<leaf>,leaf>", [](leaves& l, rng& r) {
            tlog       = track_log();
            cur_leaves = &l;
            auto A     = l.make<0>("A", r.range(100, 600), "C08");
            return std::unique_ptr<FBt>(new FBt(TRD(tracker{&tlog}, std::move(A)), l.make<1>("B", 1 << 20, "C08")));
        }, 64);
        g_after_op = nullptr;
        // the composable interface behind the storage classes and behind the traits' defaults
        {
            using FBmin = fallback_allocator<cleaf_min_t<0>, cleaf_t<1>>;
            routing_kind<FBmin>(a, "fallback<leaf-node-functions-only,leaf>", [](leaves& l, rng& r) {
                return std::unique_ptr<FBmin>(new FBmin(cleaf_min_t<0>(l.make<0>("A", r.range(100, 600), "C08")), l.make<1>("B", 1 << 20, "C08")));
            }, 64);
            struct ref_fb
            {
                cleaf_t<0> a;
                cleaf_t<1> b;
                fallback_allocator<allocator_reference<cleaf_t<0>>, allocator_reference<cleaf_t<1>>> fb;
                ref_fb(cleaf_t<0> x, cleaf_t<1> y) : a(std::move(x)), b(std::move(y)), fb(allocator_reference<cleaf_t<0>>(a), allocator_reference<cleaf_t<1>>(b)) {}
            };
            using FBref = fallback_allocator<allocator_reference<cleaf_t<0>>, allocator_reference<cleaf_t<1>>>;
            routing_kind<FBref>(a, "fallback<reference<leaf>,reference<leaf>>", [](leaves& l, rng& r) {
                auto h = std::make_shared<ref_fb>(l.make<0>("A", r.range(100, 600), "C08"), l.make<1>("B", 1 << 20, "C08"));
                return std::shared_ptr<FBref>(h, &h->fb);
            }, 64);
            struct any_fb
            {
                cleaf_t<0> a;
                cleaf_t<1> b;
                fallback_allocator<any_allocator_reference, allocator_reference<cleaf_t<1>>> fb;
                any_fb(cleaf_t<0> x, cleaf_t<1> y) : a(std::move(x)), b(std::move(y)), fb(any_allocator_reference(a), allocator_reference<cleaf_t<1>>(b)) {}
            };
            using FBany = fallback_allocator<any_allocator_reference, allocator_reference<cleaf_t<1>>>;
            routing_kind<FBany>(a, "fallback<any_reference<leaf>,reference<leaf>>", [](leaves& l, rng& r) {
                auto h = std::make_shared<any_fb>(l.make<0>("A", r.range(100, 600), "C08"), l.make<1>("B", 1 << 20, "C08"));
                return std::shared_ptr<FBany>(h, &h->fb);
            }, 64);
        }
        using SEG = binary_segregator<threshold_segregatable<cleaf_t<0>>, cleaf_t<1>>;
        routing_kind<SEG>(a, "segregator<threshold(32) leaf,leaf>", [](leaves& l, rng&) {
            return std::unique_ptr<SEG>(new SEG(threshold(32, l.make<0>("A", 1 << 20, "C08")), l.make<1>("B", 1 << 20, "C08")));
        }, 64);
    }
    else if (a.group == "siblings")
    {
        siblings_kind(a, "pool<node>", [](probe_handle h, rng& r) { return std::unique_ptr<sib>(new sib_pool<node_pool>(h, r)); });
        siblings_kind(a, "pool<array>", [](probe_handle h, rng& r) { return std::unique_ptr<sib>(new sib_pool<array_pool>(h, r)); });
        siblings_kind(a, "pool<small>", [](probe_handle h, rng& r) { return std::unique_ptr<sib>(new sib_pool<small_node_pool>(h, r)); });
        siblings_kind(a, "coll<node,log2>", [](probe_handle h, rng& r) { return std::unique_ptr<sib>(new sib_coll<node_pool, log2_buckets>(h, r)); });
        siblings_kind(a, "coll<array,identity>", [](probe_handle h, rng& r) { return std::unique_ptr<sib>(new sib_coll<array_pool, identity_buckets>(h, r)); });
        siblings_kind(a, "stack", [](probe_handle h, rng& r) { return std::unique_ptr<sib>(new sib_stack(h, r)); });
        siblings_kind(a, "iteration<2>", [](probe_handle h, rng& r) { return std::unique_ptr<sib>(new sib_iter(h, r)); });
        siblings_kind(a, "mixed", [](probe_handle h, rng& r) -> std::unique_ptr<sib> {
            switch (r.below(4))
            {
            case 0:
                return std::unique_ptr<sib>(new sib_pool<node_pool>(h, r));
            case 1:
                return std::unique_ptr<sib>(new sib_stack(h, r));
            case 2:
                return std::unique_ptr<sib>(new sib_coll<node_pool, log2_buckets>(h, r));
            default:
                return std::unique_ptr<sib>(new sib_pool<small_node_pool>(h, r));
            }
        });
    }
    else
    {
        auto L = [](fwd_env& e) { return probe_raw(e.lv.raw("leaf", "C09")); };
        auto M = [](fwd_env& e) { return probe_raw_min(e.lv.raw("leaf-min", "C09")); };
        const std::size_t BIG = 70000;
        // depth 1
        using AD = allocator_adapter<probe_raw>;
        forward_kind<AD>(a, "adapter<leaf>", [&](fwd_env& e, rng&) { return std::unique_ptr<AD>(new AD(L(e))); }, BIG, 16, false);
        using ADm = allocator_adapter<probe_raw_min>;
        forward_kind<ADm>(a, "adapter<leaf-min>", [&](fwd_env& e, rng&) { return std::unique_ptr<ADm>(new ADm(M(e))); }, BIG, 16, false);
        struct ref_holder
        {
            probe_raw                  leaf;
            allocator_reference<probe_raw> ref;
            ref_holder(probe_raw l) : leaf(std::move(l)), ref(leaf) {}
        };
        forward_kind<allocator_reference<probe_raw>>(a, "reference<leaf>", [&](fwd_env& e, rng&) {
            auto h = std::make_shared<ref_holder>(L(e));
            return std::shared_ptr<allocator_reference<probe_raw>>(h, &h->ref);
        }, BIG, 16, false);
        struct any_holder
        {
            probe_raw               leaf;
            any_allocator_reference ref;
            any_holder(probe_raw l) : leaf(std::move(l)), ref(leaf) {}
        };
        forward_kind<any_allocator_reference>(a, "any_reference<leaf>", [&](fwd_env& e, rng&) {
            auto h = std::make_shared<any_holder>(L(e));
            return std::shared_ptr<any_allocator_reference>(h, &h->ref);
        }, BIG, 16, false);
        struct anymin_holder
        {
            probe_raw_min           leaf;
            any_allocator_reference ref;
            anymin_holder(probe_raw_min l) : leaf(std::move(l)), ref(leaf) {}
        };
        forward_kind<any_allocator_reference>(a, "any_reference<leaf-min>", [&](fwd_env& e, rng&) {
            auto h = std::make_shared<anymin_holder>(M(e));
            return std::shared_ptr<any_allocator_reference>(h, &h->ref);
        }, BIG, 16, false);
        using TS = thread_safe_allocator<probe_raw, std::mutex>;
        forward_kind<TS>(a, "thread_safe<leaf>", [&](fwd_env& e, rng&) { return std::unique_ptr<TS>(new TS(L(e))); }, BIG, 16, false);
        using AL = aligned_allocator<probe_raw>;
        forward_kind<AL>(a, "aligned<leaf>", [&](fwd_env& e, rng& r) { return std::unique_ptr<AL>(new AL(std::size_t(1) << r.below(6), L(e))); }, BIG, 16, false);
        using ALm = aligned_allocator<probe_raw_min>;
        forward_kind<ALm>(a, "aligned<leaf-min>", [&](fwd_env& e, rng& r) { return std::unique_ptr<ALm>(new ALm(std::size_t(1) << r.below(5), M(e))); }, BIG, 16, false);
        using TR = tracked_allocator<tracker, probe_raw>;
        forward_kind<TR>(a, "tracked<leaf>", [&](fwd_env& e, rng&) { return std::unique_ptr<TR>(new TR(tracker{&e.tl}, L(e))); }, BIG, 16, true);
        using TRm = tracked_allocator<tracker, probe_raw_min>;
        forward_kind<TRm>(a, "tracked<leaf-min>", [&](fwd_env& e, rng&) { return std::unique_ptr<TRm>(new TRm(tracker{&e.tl}, M(e))); }, BIG, 16, true);
        using SEG = binary_segregator<threshold_segregatable<probe_raw>, probe_raw>;
        forward_kind<SEG>(a, "segregator<threshold(64) leaf,leaf>", [&](fwd_env& e, rng&) { return std::unique_ptr<SEG>(new SEG(threshold(64, L(e)), L(e))); }, BIG,
                          16, false);
        using SEGe = binary_segregator<by_element_size<probe_raw>, probe_raw>;
        forward_kind<SEGe>(a, "segregator<by-element-size(64) leaf,leaf>", [&](fwd_env& e, rng&) {
            return std::unique_ptr<SEGe>(new SEGe(by_element_size<probe_raw>(64, L(e)), L(e)));
        }, BIG, 16, false);
        using SEG3 = segregator<threshold_segregatable<probe_raw>, threshold_segregatable<probe_raw>, probe_raw>;
        forward_kind<SEG3>(a, "segregator<64,256,leaf>", [&](fwd_env& e, rng&) {
            return std::unique_ptr<SEG3>(new SEG3(make_segregator(threshold(64, L(e)), threshold(256, L(e)), L(e))));
        }, BIG, 16, false);
        // memory_resource_adapter -> memory_resource_allocator
        struct mr_holder
        {
            memory_resource_adapter<probe_raw> res;
            memory_resource_allocator          alloc;
            mr_holder(probe_raw l) : res(std::move(l)), alloc(&res) {}
        };
        forward_kind<memory_resource_allocator>(a, "memory_resource<leaf>", [&](fwd_env& e, rng&) {
            auto h = std::make_shared<mr_holder>(L(e));
            return std::shared_ptr<memory_resource_allocator>(h, &h->alloc);
        }, BIG, 16, false);
        struct mrv_holder
        {
            memory_resource_adapter<vary_leaf> res;
            memory_resource_allocator          alloc;
            mrv_holder(vary_leaf l) : res(std::move(l)), alloc(&res) {}
        };
        forward_kind<memory_resource_allocator>(a, "memory_resource<leaf-varying-max>", [&](fwd_env& e, rng&) {
            auto h = std::make_shared<mrv_holder>(vary_leaf(e.lv.raw("leaf-vary", "C09"), e.vary));
            return std::shared_ptr<memory_resource_allocator>(h, &h->alloc);
        }, 4000, 16, false);
        // depth 2 and 3
        using T_AL = tracked_allocator<tracker, aligned_allocator<probe_raw>>;
        forward_kind<T_AL>(a, "tracked<aligned<leaf>>", [&](fwd_env& e, rng& r) {
            return std::unique_ptr<T_AL>(new T_AL(tracker{&e.tl}, aligned_allocator<probe_raw>(std::size_t(1) << r.below(6), L(e))));
        }, BIG, 16, true);
        using AL_T = aligned_allocator<tracked_allocator<tracker, probe_raw>>;
        forward_kind<AL_T>(a, "aligned<tracked<leaf>>", [&](fwd_env& e, rng& r) {
            return std::unique_ptr<AL_T>(new AL_T(std::size_t(1) << r.below(6), tracked_allocator<tracker, probe_raw>(tracker{&e.tl}, L(e))));
        }, BIG, 16, false);
        using TS_AL = thread_safe_allocator<aligned_allocator<probe_raw_min>, std::mutex>;
        forward_kind<TS_AL>(a, "thread_safe<aligned<leaf-min>>", [&](fwd_env& e, rng& r) {
            return std::unique_ptr<TS_AL>(new TS_AL(aligned_allocator<probe_raw_min>(std::size_t(1) << r.below(5), M(e))));
        }, BIG, 16, false);
        using SEG_T = binary_segregator<threshold_segregatable<tracked_allocator<tracker, probe_raw>>, aligned_allocator<probe_raw>>;
        forward_kind<SEG_T>(a, "segregator<threshold(256) tracked<leaf>,aligned<leaf>>", [&](fwd_env& e, rng&) {
            return std::unique_ptr<SEG_T>(new SEG_T(threshold(256, tracked_allocator<tracker, probe_raw>(tracker{&e.tl}, L(e))), aligned_allocator<probe_raw>(8, L(e))));
        }, BIG, 16, false);
        using T_SEG = tracked_allocator<tracker, SEG>;
        forward_kind<T_SEG>(a, "tracked<segregator<threshold(64) leaf,leaf>>", [&](fwd_env& e, rng&) {
            return std::unique_ptr<T_SEG>(new T_SEG(tracker{&e.tl}, SEG(threshold(64, L(e)), L(e))));
        }, BIG, 16, true);
        struct any_tr_holder
        {
            tracked_allocator<tracker, aligned_allocator<probe_raw>> inner;
            allocator_reference<tracked_allocator<tracker, aligned_allocator<probe_raw>>> ref;
            any_tr_holder(tracker t, std::size_t al, probe_raw l) : inner(t, aligned_allocator<probe_raw>(al, std::move(l))), ref(inner) {}
        };
        forward_kind<allocator_reference<tracked_allocator<tracker, aligned_allocator<probe_raw>>>>(a, "reference<tracked<aligned<leaf>>>", [&](fwd_env& e, rng& r) {
            auto h = std::make_shared<any_tr_holder>(tracker{&e.tl}, std::size_t(1) << r.below(5), L(e));
            return std::shared_ptr<allocator_reference<tracked_allocator<tracker, aligned_allocator<probe_raw>>>>(h, &h->ref);
        }, BIG, 16, true);
        // a tracker with state around a stateless allocator is a stateful allocator: references must refer to the object they were given
        struct sl_tr_holder
        {
            tracked_allocator<tracker, sl_leaf>                      inner;
            allocator_reference<tracked_allocator<tracker, sl_leaf>> ref;
            sl_tr_holder(tracker t) : inner(t, sl_leaf{}), ref(inner) {}
        };
        forward_kind<allocator_reference<tracked_allocator<tracker, sl_leaf>>>(a, "reference<tracked<stateless-leaf>>", [&](fwd_env& e, rng&) {
            sl_leaf::h() = e.lv.raw("leaf-stateless", "C09");
            auto h       = std::make_shared<sl_tr_holder>(tracker{&e.tl});
            return std::shared_ptr<allocator_reference<tracked_allocator<tracker, sl_leaf>>>(h, &h->ref);
        }, BIG, 16, true);
        // (any_allocator_reference over a tracked_allocator whose allocator is not composable does not compile: the type erasure
        //  instantiates tracked_allocator's try_ members - a build-time matter outside this family)
        struct mr_seg_holder
        {
            memory_resource_adapter<SEG> res;
            memory_resource_allocator    alloc;
            mr_seg_holder(SEG s) : res(std::move(s)), alloc(&res) {}
        };
        forward_kind<memory_resource_allocator>(a, "memory_resource<segregator<threshold(64) leaf,leaf>>", [&](fwd_env& e, rng&) {
            auto h = std::make_shared<mr_seg_holder>(SEG(threshold(64, L(e)), L(e)));
            return std::shared_ptr<memory_resource_allocator>(h, &h->alloc);
        }, BIG, 16, false);
        std_and_smart(a);
    }
    finish();
    return 0;
}
