// History engines for memory_stack (C06, C05 cache, C01/C02, C12, C15, C18), iteration_allocator<1..5> (C07)
// and static_allocator, each over every block source.
#include "common/core.hpp"

#include <foonathan/memory/static_allocator.hpp>

using namespace vf;
using namespace foonathan::memory;

void run_stacks(const vf::args&);
void run_iter_12(const vf::args&);
void run_iter_3(const vf::args&);
void run_iter_45(const vf::args&);

namespace
{
    // static_allocator: node allocations out of static storage until it is exhausted
    void run_static(const args& a)
    {
        std::string kind = "static_allocator";
        if (a.kind != "all" && a.kind != kind)
            return;
        for (long c = a.from; c < a.to; ++c)
            run_case(kind, c, [&] {
                auto r = case_rng(a.seed, a.group, kind, c);
                using storage_t = static_allocator_storage<4096>;
                std::unique_ptr<storage_t> st(new storage_t);
                std::memset(st->storage, 0x5A, sizeof st->storage);
                static_allocator   alloc(*st);
                using tr = allocator_traits<static_allocator>;
                shadow             sh;
                false_report_guard frg;
                auto owns = [&](const char* p, std::size_t n) { return p >= st->storage && p + n <= st->storage + sizeof st->storage; };
                constexpr std::size_t F = detail::debug_fence_size;
                while (cx().step < a.ops)
                {
                    auto        cap  = tr::max_node_size(alloc);
                    std::size_t size = r.chance(70) ? r.range(1, 64) : r.range(1, std::max<std::size_t>(cap, 1) + 16);
                    if (r.chance(5))
                        size = cap > 2 * F ? cap - 2 * F : 1;
                    std::size_t align = std::size_t(1) << (r.chance(70) ? r.below(5) : r.below(9));
                    bool        arr   = r.chance(20);
                    std::size_t count = arr ? r.range(1, 4) : 1;
                    op("%s %zux%zu/%zu", arr ? "array" : "node", count, size, align);
                    auto  oom0 = hl().oom;
                    void* p;
                    try
                    {
                        p = arr ? tr::allocate_array(alloc, count, size, align) : tr::allocate_node(alloc, size, align);
                    }
                    catch (out_of_fixed_memory&)
                    {
                        if (hl().oom == oom0)
                            viol("C03", "C03/static_allocator/oom-handler-not-called", "out_of_fixed_memory thrown without calling the handler");
                        if (count * size + 2 * F + align - 1 <= cap)
                            viol("C03", "C03/static_allocator/refused-although-capacity", "request of %zu bytes refused although %zu are left",
                                 count * size, cap);
                        if (tr::max_node_size(alloc) != cap)
                            viol("C18", "C18/static_allocator/failed-alloc-changed-capacity", "max_node_size changed across a failed allocation");
                        vf::count("out_of_memory_thrown");
                        flag("exhausted");
                        sh.sweep();
                        continue;
                    }
                    sh.add(owns, p, arr, count, size, align);
                    auto cap1 = tr::max_node_size(alloc);
                    if (cap < cap1 || cap - cap1 < count * size || cap - cap1 > count * size + 2 * F + align - 1)
                        viol("C18", "C18/static_allocator/alloc-delta", "max_node_size went %zu -> %zu for %zu bytes aligned %zu", cap, cap1, count * size,
                             align);
                    vf::count("alloc");
                    if (sh.live.size() > 1)
                        flag("multi-live");
                    if (align > alignof(std::max_align_t))
                        flag("overaligned");
                    if (r.chance(20) && !sh.live.empty())
                    {
                        // deallocation is a no-op: the memory is not reused
                        auto it = sh.pick(r);
                        auto q  = it->first;
                        auto e  = sh.retire(q);
                        op("free #%u", e.id);
                        if (e.arr)
                            tr::deallocate_array(alloc, q, e.count, e.size, e.align);
                        else
                            tr::deallocate_node(alloc, q, e.size, e.align);
                        flag("release");
                    }
                    if (cx().step % 16 == 0)
                        sh.sweep();
                    frg.check("allocate");
                }
                sh.sweep();
            });
    }
} // namespace

int main(int argc, char** argv)
{
    auto a               = parse_args(argc, argv, "h_stack");
    cx().nontrivial_rule = history_rule;
    install_recording_handlers();
    run_stacks(a);
    run_iter_12(a);
    run_iter_3(a);
    run_iter_45(a);
    run_static(a);
    finish();
    return 0;
}
