#include "common/coll_engine.hpp"
void run_coll_small_id(const vf::args& a)
{
    vf_coll::run_sources<foonathan::memory::small_node_pool, foonathan::memory::identity_buckets>(a);
}
