#include "common/stack_engine.hpp"
void run_iter_45(const vf::args& a)
{
    vf_stack::run_iter_sources<4>(a);
    vf_stack::run_iter_sources<5>(a);
}
