// Low-level allocators (heap, malloc, new, virtual memory), aligned_allocator over them, and temporary_allocator scopes.
// C01/C02 (disjoint, aligned, inside what malloc handed to the library), C17(b) fill, C16/C17 no false reports,
// C14(a) temporary scopes end with the object, C05 for the temporary block source (malloc log).
// Linked with -Wl,--wrap=malloc,--wrap=free: the harness sees every malloc/free the library makes.
#include <foonathan/memory/aligned_allocator.hpp>
#include <foonathan/memory/heap_allocator.hpp>
#include <foonathan/memory/malloc_allocator.hpp>
#include <foonathan/memory/new_allocator.hpp>
#include <foonathan/memory/temporary_allocator.hpp>
#include <foonathan/memory/virtual_memory.hpp>

#include "common/core.hpp"

using namespace vf;
using namespace foonathan::memory;

// ---- malloc log (armed only around library calls) ----
namespace
{
    struct mlog_t
    {
        bool                        armed = false;
        std::map<char*, std::size_t> live;
        long                        mallocs = 0, frees = 0, unknown_free = 0;
        bool owns(const char* p, std::size_t n) const
        {
            auto it = live.upper_bound(const_cast<char*>(p));
            if (it == live.begin())
                return false;
            --it;
            return p >= it->first && p + n <= it->first + it->second;
        }
    };
    mlog_t& mlog()
    {
        static mlog_t m;
        return m;
    }
    struct arm
    {
        bool prev;
        arm() : prev(mlog().armed)
        {
            mlog().armed = true;
        }
        ~arm()
        {
            mlog().armed = prev;
        }
    };
} // namespace

extern "C" void* __real_malloc(std::size_t);
extern "C" void  __real_free(void*);
extern "C" void* __wrap_malloc(std::size_t n)
{
    void* p = __real_malloc(n);
    auto& m = mlog();
    if (m.armed && p)
    {
        m.armed = false; // the map allocates
        m.live[static_cast<char*>(p)] = n;
        ++m.mallocs;
        m.armed = true;
    }
    return p;
}
extern "C" void __wrap_free(void* p)
{
    auto& m = mlog();
    if (m.armed && p)
    {
        m.armed = false;
        auto it = m.live.find(static_cast<char*>(p));
        if (it == m.live.end())
            ++m.unknown_free;
        else
            m.live.erase(it);
        ++m.frees;
        m.armed = true;
    }
    __real_free(p);
}

namespace
{
    template <class A>
    void run_lowlevel(const args& a, const char* name, bool malloc_based, std::size_t max_size, std::size_t max_align)
    {
        std::string kind = name;
        if (a.kind != "all" && a.kind != kind)
            return;
        for (long c = a.from; c < a.to; ++c)
            run_case(kind, c, [&] {
                auto r  = case_rng(a.seed, a.group, kind, c);
                using tr = allocator_traits<A>;
                A                  alloc;
                shadow             sh;
                false_report_guard frg;
                auto live0 = mlog().live.size();
                auto owns = [&](const char* p, std::size_t n) { return !malloc_based || mlog().owns(p, n); };
                while (cx().step < a.ops)
                {
                    auto x = r.below(100);
                    if (x < 55 || sh.live.empty())
                    {
                        std::size_t size = r.chance(60) ? r.range(1, 200) : r.chance(80) ? r.range(1, 5000) : r.range(1, max_size);
                        if (r.chance(10))
                            size = (std::size_t(1) << r.below(13)) + r.below(3) - 1; // around powers of two / page sizes
                        size              = std::max<std::size_t>(size, 1);
                        std::size_t align = std::size_t(1) << r.below(14);
                        while (align > max_align || align > tr::max_alignment(alloc))
                            align >>= 1;
                        bool        arr   = r.chance(25);
                        std::size_t count = arr ? r.range(1, 5) : 1;
                        op("%s %zux%zu/%zu", arr ? "array" : "node", count, size, align);
                        void* p;
                        {
                            arm g;
                            p = arr ? tr::allocate_array(alloc, count, size, align) : tr::allocate_node(alloc, size, align);
                        }
                        sh.add(owns, p, arr, count, size, align);
                        vf::count(arr ? "alloc_array" : "alloc_node");
                        if (sh.live.size() > 1)
                            flag("multi-live");
                        if (align > alignof(std::max_align_t))
                            flag("overaligned");
                    }
                    else
                    {
                        auto it = sh.pick(r);
                        auto p  = it->first;
                        auto e  = sh.retire(p);
                        op("free #%u", e.id);
                        // in-bounds writes of arbitrary bytes, including the fence pattern, are never reported
                        std::memset(p, r.chance(50) ? 0xFD : int(r.below(256)), e.n);
                        {
                            arm g;
                            if (e.arr)
                                tr::deallocate_array(alloc, p, e.count, e.size, e.align);
                            else
                                tr::deallocate_node(alloc, p, e.size, e.align);
                        }
                        vf::count("release");
                        flag("release");
                    }
                    frg.check("low-level allocate/deallocate");
                    if (cx().step % 32 == 0)
                        sh.sweep();
                }
                while (!sh.live.empty())
                {
                    auto p = sh.live.begin()->first;
                    auto e = sh.retire(p);
                    arm  g;
                    if (e.arr)
                        tr::deallocate_array(alloc, p, e.count, e.size, e.align);
                    else
                        tr::deallocate_node(alloc, p, e.size, e.align);
                }
                frg.check("final deallocate");
                if (malloc_based && mlog().live.size() != live0)
                    viol("C05", "C05/" + kind + "/malloc-not-balanced", "%zu blocks obtained from malloc were not freed after every node was deallocated",
                         mlog().live.size() - live0);
                if (mlog().unknown_free)
                {
                    mlog().unknown_free = 0;
                    viol("C05", "C05/" + kind + "/free-of-unknown", "the allocator passed a pointer to free() that it had not obtained from malloc()");
                }
            });
    }

    // aligned_allocator<heap_allocator>: minimum alignment raised, release must mirror it
    void run_aligned(const args& a)
    {
        std::string kind = "aligned<heap>";
        if (a.kind != "all" && a.kind != kind)
            return;
        for (long c = a.from; c < a.to; ++c)
            run_case(kind, c, [&] {
                auto        r      = case_rng(a.seed, a.group, kind, c);
                std::size_t min_al = std::size_t(1) << r.below(5);
                using A            = aligned_allocator<heap_allocator>;
                using tr           = allocator_traits<A>;
                A                  alloc(min_al);
                shadow             sh;
                false_report_guard frg;
                auto live0 = mlog().live.size();
                op("setup min_alignment=%zu", min_al);
                auto owns = [&](const char* p, std::size_t n) { return mlog().owns(p, n); };
                while (cx().step < a.ops)
                {
                    if (r.chance(5))
                    {
                        // the minimum alignment is part of the allocator's state: it moves along (the wrapped heap_allocator is stateless,
                        // so everything outstanding stays valid)
                        std::size_t new_min = std::size_t(1) << r.below(5);
                        int         how     = int(r.below(3));
                        op("%s min_alignment=%zu", how == 0 ? "move-assign from an allocator with" : how == 1 ? "move-construct + move-assign back," : "set_min_alignment", new_min);
                        if (how == 0)
                        {
                            A other(new_min);
                            alloc = std::move(other);
                        }
                        else if (how == 1)
                        {
                            A other(new_min);
                            A moved(std::move(other));
                            alloc = std::move(moved);
                        }
                        else
                            alloc.set_min_alignment(new_min);
                        min_al = new_min;
                        if (alloc.min_alignment() != min_al)
                            viol("C02", "C02/" + kind + "/min-alignment-after-move",
                                 "after the allocator was replaced by one with minimum alignment %zu it reports min_alignment() %zu", min_al, alloc.min_alignment());
                        vf::count("aligned_moves");
                        continue;
                    }
                    if (r.chance(55) || sh.live.empty())
                    {
                        std::size_t size  = r.range(1, 300);
                        std::size_t align = std::size_t(1) << r.below(5);
                        bool        arr   = r.chance(30);
                        std::size_t count = arr ? r.range(1, 5) : 1;
                        op("%s %zux%zu/%zu", arr ? "array" : "node", count, size, align);
                        void* p;
                        {
                            arm g;
                            p = arr ? tr::allocate_array(alloc, count, size, align) : tr::allocate_node(alloc, size, align);
                        }
                        // the guaranteed alignment is the larger of the two
                        sh.add(owns, p, arr, count, size, std::max(align, min_al));
                        sh.live[static_cast<char*>(p)].align = align;
                        vf::count("alloc");
                        if (sh.live.size() > 1)
                            flag("multi-live");
                    }
                    else
                    {
                        auto it = sh.pick(r);
                        auto p  = it->first;
                        auto e  = sh.retire(p);
                        op("free #%u", e.id);
                        arm g;
                        if (e.arr)
                            tr::deallocate_array(alloc, p, e.count, e.size, e.align);
                        else
                            tr::deallocate_node(alloc, p, e.size, e.align);
                        flag("release");
                    }
                    frg.check("aligned allocate/deallocate");
                }
                while (!sh.live.empty())
                {
                    auto p = sh.live.begin()->first;
                    auto e = sh.retire(p);
                    arm  g;
                    if (e.arr)
                        tr::deallocate_array(alloc, p, e.count, e.size, e.align);
                    else
                        tr::deallocate_node(alloc, p, e.size, e.align);
                }
                if (mlog().live.size() != live0)
                    viol("C05", "C05/" + kind + "/malloc-not-balanced", "blocks obtained from malloc were not freed");
            });
    }

    // temporary_allocator: nested scopes on an explicit temporary_stack and on the thread's own stack
    struct temp_ctx
    {
        rng*               r;
        shadow             sh;
        int                ops_left;
        false_report_guard frg;
        bool               use_traits;
        long               scopes = 0, shrinks = 0, refusals = 0;
    };

    void temp_scope(temp_ctx& t, temporary_stack* st, int depth, const std::string& kind)
    {
        auto& r = *t.r;
        op("scope{ depth=%d", depth);
        unsigned id_floor = t.sh.next_id;
        long     shrinks0 = t.shrinks, refusals0 = t.refusals;
        auto     blocks0  = mlog().live.size(); // upstream blocks held when the scope begins
        bool     shrink_requested = false;
        char*       first_addr = nullptr;
        std::size_t first_size = 0, first_align = 0;
        {
            arm g;
            std::unique_ptr<temporary_allocator> ta(st ? new temporary_allocator(*st) : new temporary_allocator());
            ++t.scopes;
            int n = int(r.range(0, 12));
            for (int i = 0; i < n && t.ops_left > 0; ++i, --t.ops_left)
            {
                auto x = r.below(100);
                if (x < 70)
                {
                    auto        nc    = ta->get_stack().next_capacity();
                    // blocks double on growth: keep most requests small
                    std::size_t size = r.chance(70) ? r.range(1, 100) : r.range(1, std::min<std::size_t>(std::max<std::size_t>(nc / 3, 1), 3000));
                    std::size_t align = std::size_t(1) << (r.chance(70) ? r.below(5) : r.below(9));
                    if (size + align + 64 > nc / 2)
                    {
                        size  = 8;
                        align = 8;
                    }
                    op("alloc %zu/%zu", size, align);
                    if (!ta->is_active())
                        viol("C14", "C14/" + kind + "/not-active", "the innermost temporary_allocator is not the active one");
                    void* p = t.use_traits ? allocator_traits<temporary_allocator>::allocate_node(*ta, size, align) : ta->allocate(size, align);
                    t.sh.add([&](const char* q, std::size_t k) { return mlog().owns(q, k); }, p, false, 1, size, align, depth);
                    if (!first_addr)
                    {
                        first_addr  = static_cast<char*>(p);
                        first_size  = size;
                        first_align = align;
                    }
                    vf::count("alloc");
                    if (t.sh.live.size() > 1)
                        flag("multi-live");
                }
                else if (x < 92 && depth < 6)
                {
                    // remember what the next request of this scope would get: after the inner scope it must be the same
                    temp_scope(t, st, depth + 1, kind);
                    if (!ta->is_active())
                        viol("C14", "C14/" + kind + "/not-active", "after an inner scope ended the outer temporary_allocator is not active again");
                }
                else if (x < 96 && ta->get_stack().next_capacity() < (std::size_t(1) << 16))
                {
                    // (every re-growth after a purge doubles the block size: bounded, or the stack ends up asking for terabytes)
                    op("shrink_to_fit");
                    ta->shrink_to_fit();
                    ++t.shrinks;
                    shrink_requested = true;
                }
                else if (x < 98 && t.refusals < 2 && ta->get_stack().next_capacity() < (std::size_t(1) << 16))
                {
                    // a request no block of the stack can hold is refused (bad_allocation_size); the scope goes on, and everything it is given
                    // afterwards lies in the stack's memory like before (the library moves on to the next block before it refuses)
                    auto size = ta->get_stack().next_capacity() + 1 + r.below(100);
                    op("refused request %zu", size);
                    try
                    {
                        // (should the current block happen to have that much room, it is an ordinary allocation)
                        void* p = ta->allocate(size, 1);
                        t.sh.add([&](const char* q, std::size_t k) { return mlog().owns(q, k); }, p, false, 1, size, 1, depth);
                    }
                    catch (bad_allocation_size&)
                    {
                        vf::count("refused_oversize");
                    }
                    ++t.refusals;
                    t.sh.sweep();
                }
                else
                    t.sh.sweep();
                t.frg.check("temporary allocate");
            }
            // the scope ends: everything it allocated must be intact until now
            for (auto& kv : t.sh.live)
                if (kv.second.id >= id_floor)
                    t.sh.verify(kv.first, kv.second);
            op("} depth=%d", depth);
            ta.reset();
        }
        t.sh.drop_if([&](char*, const shadow_ent& e) { return e.id >= id_floor; });
        t.sh.sweep(); // outer allocations untouched
        flag("unwind");
        // a scope that asked for shrink_to_fit() returns, when it ends, every block that is not in use by an outer scope:
        // no more upstream blocks are held than when it began (explicit stack only: the malloc log then holds nothing else)
        if (shrink_requested && st && mlog().live.size() > blocks0 && cx().prop == "C06")
            viol_nothrow("C06", "C06/" + kind + "/shrink-kept-blocks",
                         "blocks freed by the unwind at the end of a scope that requested shrink_to_fit() are still cached");
        if (shrink_requested && st && mlog().live.size() > blocks0)
            viol("C05", "C05/" + kind + "/shrink-kept-blocks",
                 "a temporary_allocator scope requested shrink_to_fit(); when it began %zu upstream blocks were held, after its end %zu are", blocks0,
                 mlog().live.size());
        if (shrink_requested)
            vf::count("scopes_with_shrink");
        // replay: a new scope at the same place gets the same first address for the same first request
        // (only while the block cache has not been purged: shrink_to_fit() of a scope takes effect when it ends)
        if (first_addr && t.shrinks == shrinks0 && t.refusals == refusals0 && r.chance(60))
        {
            arm                                  g;
            std::unique_ptr<temporary_allocator> again(st ? new temporary_allocator(*st) : new temporary_allocator());
            void*                                p = again->allocate(first_size, first_align);
            op("replay first request %zu/%zu", first_size, first_align);
            vf::count("replayed_requests");
            if (p != first_addr)
                viol("C14", "C14/" + kind + "/stack-not-restored",
                     "after a temporary_allocator was destroyed the same first request (%zu bytes, align %zu) returns an address %td bytes away: "
                     "the stack was not left as it was at construction",
                     first_size, first_align, static_cast<char*>(p) - first_addr);
            flag("replay");
        }
    }

    void run_temporary(const args& a, bool explicit_stack)
    {
        std::string kind = explicit_stack ? "temporary/explicit-stack" : "temporary/thread-stack";
        if (a.kind != "all" && a.kind != kind)
            return;
        for (long c = a.from; c < a.to; ++c)
            run_case(kind, c, [&] {
                auto     r = case_rng(a.seed, a.group, kind, c);
                // a scope that does not end cleanly (overlap, corrupted outer allocation, the library's own pointer check firing on
                // a valid history) violates C14's first sentence as well
                cx().also     = "C14";
                cx().also_for = "C01 C06 C16";
                temp_ctx t;
                t.r          = &r;
                t.ops_left   = a.ops;
                t.use_traits = r.chance(50);
                auto live0 = mlog().live.size();
                std::size_t init = r.range(256, 4096);
                op("setup initial_size=%zu %s", init, t.use_traits ? "traits" : "member");
                if (explicit_stack)
                {
                    std::unique_ptr<temporary_stack> st;
                    {
                        arm g;
                        st.reset(new temporary_stack(init));
                    }
                    // identical scope trees repeated: after the first repetition no new upstream block
                    auto seed_state = r.s;
                    long mallocs_after_first = -1;
                    int  reps = int(r.range(2, 4));
                    for (int rep = 0; rep < reps; ++rep)
                    {
                        r.s        = seed_state;
                        t.ops_left = a.ops / reps;
                        op("repetition %d", rep);
                        while (t.ops_left > 0)
                        {
                            temp_scope(t, st.get(), 0, kind);
                            --t.ops_left;
                        }
                        if (!t.sh.live.empty())
                            viol("C14", "C14/" + kind + "/harness", "harness: allocations outlive all scopes");
                        if (rep == 0)
                            mallocs_after_first = mlog().mallocs;
                    }
                    // shrink_to_fit inside a scope only takes effect at its end, so later repetitions may re-acquire what a shrink released:
                    // the block count is judged only for cases without shrink
                    (void)mallocs_after_first;
                    {
                        arm g;
                        st.reset();
                    }
                    if (mlog().live.size() != live0)
                        viol("C05", "C05/" + kind + "/malloc-not-balanced",
                             "%zu blocks obtained from malloc were not freed when the temporary_stack was destroyed", mlog().live.size() - live0);
                }
                else
                {
                    // the thread's own stack lives as long as the thread; it is not purged between cases, because every
                    // re-growth after a purge doubles the block size (initializer lifetimes are the subject of h_thread)
                    arm g0;
                    (void)init;
                    while (t.ops_left > 0)
                    {
                        temp_scope(t, nullptr, 0, kind);
                        --t.ops_left;
                    }
                }
                vf::count("scopes", t.scopes);
            });
    }
} // namespace

int main(int argc, char** argv)
{
    auto a               = parse_args(argc, argv, "h_low");
    cx().nontrivial_rule = history_rule;
    install_recording_handlers();
    run_lowlevel<heap_allocator>(a, "heap_allocator", true, 20000, 16);
    run_lowlevel<malloc_allocator>(a, "malloc_allocator", true, 20000, 16);
    run_lowlevel<new_allocator>(a, "new_allocator", false, 20000, 16);
    run_lowlevel<virtual_memory_allocator>(a, "virtual_memory_allocator", false, 40000, 4096);
    run_aligned(a);
    run_temporary(a, true);
    run_temporary(a, false);
    finish();
    return 0;
}
