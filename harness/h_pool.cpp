// History engine for memory_pool<node_pool|array_pool|small_node_pool> over every block source.
// Oracles: C01 C02 (shadow heap), C03 (fixed sources: out_of_memory family, try_ never grows), C04 (conservation,
// no growth while a node is free, cycles, drain), C05 (probe: LIFO, exactly once, balanced), C12 (moves, swaps),
// C15 (leak amount exact), C16 (no false reports), C17b (fill patterns), C18 (capacity deltas).
#include "common/core.hpp"

using namespace vf;

void run_pool_node(const vf::args&);
void run_pool_array(const vf::args&);
void run_pool_small(const vf::args&);


int main(int argc, char** argv)
{
    auto a               = parse_args(argc, argv, "h_pool");
    cx().nontrivial_rule = history_rule;
    install_recording_handlers();
    run_pool_node(a);
    run_pool_array(a);
    run_pool_small(a);
    finish();
    return 0;
}
