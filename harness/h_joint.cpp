// C11: joint allocations stay inside the object's single block and it is freed whole.          (group "layout")
// C20: object-creating helpers are exception safe at every constructor failure point.          (group "throw")
#include <list>
#include <optional>
#include <set>

#include <foonathan/memory/container.hpp>
#include <foonathan/memory/joint_allocator.hpp>
#include <foonathan/memory/memory_pool.hpp>
#include <foonathan/memory/memory_stack.hpp>
#include <foonathan/memory/smart_ptr.hpp>

#include "common/core.hpp"

using namespace vf;
using namespace foonathan::memory;

namespace
{
    //=== instrumented element type ===//
    struct tagged_failure
    {
        long serial;
    };
    struct ledger_t
    {
        std::map<const void*, unsigned char> live; // address -> first byte the element holds (checked by its destructor)
        long constructed = 0, destroyed = 0;
        long countdown   = -1; // >= 0: the construction that brings it to 0 throws
        long serial      = 0;
        bool        pending = false;
        std::string pend_key, pend_msg;
        void problem(const char* key, const std::string& msg)
        {
            if (pending)
                return;
            pending  = true;
            pend_key = key;
            pend_msg = msg;
        }
        void on_construct(const void* p)
        {
            if (countdown >= 0 && countdown-- == 0)
            {
                countdown = -1;
                throw tagged_failure{++serial};
            }
            if (!live.insert({p, 0}).second)
                problem("constructed-twice", "an element was constructed at an address where a live element already is");
            ++constructed;
        }
        void set_value(const void* p, unsigned char v)
        {
            auto it = live.find(p);
            if (it != live.end())
                it->second = v;
        }
        void on_destroy(const void* p, unsigned char v) noexcept
        {
            auto it = live.find(p);
            if (it == live.end())
                problem("destroyed-not-constructed", "an element was destroyed that is not live (destroyed twice or never constructed)");
            else
            {
                if (it->second != v)
                    problem("destroyed-after-overwrite", "an element's destructor ran on memory that no longer holds the element (its contents were overwritten first)");
                live.erase(it);
            }
            ++destroyed;
        }
        void check(const char* prop)
        {
            if (!pending)
                return;
            pending = false;
            viol(prop, std::string(prop) + "/" + cx().kind + "/" + pend_key, "%s", pend_msg.c_str());
        }
    };
    ledger_t& L()
    {
        static ledger_t l;
        return l;
    }

    template <std::size_t S, std::size_t A>
    struct alignas(A) elem
    {
        unsigned char v[S];
        elem()
        {
            L().on_construct(this);
            std::memset(v, 0x11, S);
            L().set_value(this, v[0]);
        }
        explicit elem(unsigned char x)
        {
            L().on_construct(this);
            std::memset(v, x, S);
            L().set_value(this, v[0]);
        }
        elem(const elem& o)
        {
            L().on_construct(this);
            std::memcpy(v, o.v, S);
            L().set_value(this, v[0]);
        }
        elem(elem&& o)
        {
            L().on_construct(this);
            std::memcpy(v, o.v, S);
            L().set_value(this, v[0]);
        }
        elem& operator=(const elem& o)
        {
            std::memcpy(v, o.v, S);
            L().set_value(this, v[0]);
            return *this;
        }
        ~elem()
        {
            L().on_destroy(this, v[0]);
        }
        bool operator==(const elem& o) const
        {
            return std::memcmp(v, o.v, S) == 0;
        }
    };

    // single-pass input iterator over a vector
    template <class E>
    struct input_iter
    {
        using iterator_category = std::input_iterator_tag;
        using value_type        = E;
        using difference_type   = std::ptrdiff_t;
        using pointer           = const E*;
        using reference         = const E&;
        const E* p;
        reference operator*() const
        {
            return *p;
        }
        input_iter& operator++()
        {
            ++p;
            return *this;
        }
        input_iter operator++(int)
        {
            auto t = *this;
            ++p;
            return t;
        }
        bool operator==(const input_iter& o) const
        {
            return p == o.p;
        }
        bool operator!=(const input_iter& o) const
        {
            return p != o.p;
        }
    };

    enum array_form
    {
        f_size,
        f_value,
        f_ilist,
        f_forward,
        f_input,
        f_copy,
        f_move,
        n_forms
    };
    const char* form_name(int f)
    {
        static const char* n[] = {"size", "size+value", "initializer_list", "forward-range", "input-range", "copy-with-joint", "move-with-joint"};
        return n[f];
    }

    // manual storage for a member that is constructed in the constructor body (so the form can be chosen at run time)
    template <class T>
    struct slot
    {
        alignas(T) unsigned char buf[sizeof(T)];
        bool on = false;
        T&   get()
        {
            return *reinterpret_cast<T*>(buf);
        }
        const T& get() const
        {
            return *reinterpret_cast<const T*>(buf);
        }
        template <class... X>
        void make(X&&... x)
        {
            ::new (static_cast<void*>(buf)) T(std::forward<X>(x)...);
            on = true;
        }
        void kill()
        {
            if (on)
                get().~T();
            on = false;
        }
    };

    struct plan_t
    {
        std::size_t na = 0, nv = 0, nb = 0;
        int         fa = f_size, fb = f_size;
        bool        retry_b = false; // after b's constructor threw, build b again (the joint memory must be available again)
        bool        retried = false;
    };

    template <class E, class F>
    struct J : joint_type<J<E, F>>
    {
        slot<joint_array<E>>               a;
        slot<vector<F, joint_allocator>>   v;
        slot<joint_array<F>>               b;
        int                                id;

        template <class T>
        static void build(slot<joint_array<T>>& s, joint_type<J>& j, std::size_t n, int form, const joint_array<T>* src_copy)
        {
            std::vector<T> src;
            T              val((unsigned char)0x42);
            if (form == f_forward || form == f_input)
                for (std::size_t i = 0; i < n; ++i)
                    src.emplace_back((unsigned char)(i + 1));
            switch (form)
            {
            case f_size:
                s.make(n, j);
                break;
            case f_value:
                s.make(n, val, j);
                break;
            case f_ilist:
                switch (n % 4)
                {
                case 0:
                    s.make(std::initializer_list<T>{}, j);
                    break;
                case 1:
                    s.make(std::initializer_list<T>{T((unsigned char)1)}, j);
                    break;
                case 2:
                    s.make(std::initializer_list<T>{T((unsigned char)1), T((unsigned char)2)}, j);
                    break;
                default:
                    s.make(std::initializer_list<T>{T((unsigned char)1), T((unsigned char)2), T((unsigned char)3)}, j);
                    break;
                }
                break;
            case f_forward:
                s.make(src.begin(), src.end(), j);
                break;
            case f_input:
                s.make(input_iter<T>{src.data()}, input_iter<T>{src.data() + src.size()}, j);
                break;
            case f_copy:
                s.make(*src_copy, j);
                break;
            default:
                s.make(std::move(*const_cast<joint_array<T>*>(src_copy)), j);
                break;
            }
        }

        // sources for the copy / move forms: another joint object of the same type
        J(joint tag, plan_t& p, const J* other) : joint_type<J<E, F>>(tag), id(7)
        {
            try
            {
                build<E>(a, *this, p.na, p.fa, other && other->a.on ? &other->a.get() : nullptr);
                v.make(*this);
                if (p.nv)
                {
                    v.get().reserve(p.nv);
                    for (std::size_t i = 0; i < p.nv; ++i)
                        v.get().emplace_back((unsigned char)(0x80 + i));
                }
                try
                {
                    build<F>(b, *this, p.nb, p.fb, other && other->b.on ? &other->b.get() : nullptr);
                }
                catch (tagged_failure&)
                {
                    if (!p.retry_b)
                        throw;
                    // the failed array must have given its joint memory back: the same array fits again
                    p.retried = true;
                    build<F>(b, *this, p.nb, p.fb == f_move ? f_copy : p.fb, other && other->b.on ? &other->b.get() : nullptr);
                }
            }
            catch (...)
            {
                b.kill();
                v.kill();
                a.kill();
                throw;
            }
        }
        // clone
        J(joint tag, const J& o) : joint_type<J<E, F>>(tag), id(o.id)
        {
            try
            {
                a.make(o.a.get(), *this);
                v.make(o.v.get(), *this);
                b.make(o.b.get(), *this);
            }
            catch (...)
            {
                b.kill();
                v.kill();
                a.kill();
                throw;
            }
        }
        ~J()
        {
            b.kill();
            v.kill();
            a.kill();
        }
    };

    // what the joint memory needs for plan p if it starts at offset `start` (mod 16)
    template <class E, class F>
    std::size_t joint_need(const plan_t& p, std::size_t start, std::size_t na_actual, std::size_t nb_actual)
    {
        std::size_t o   = start;
        auto        put = [&](std::size_t al, std::size_t bytes) {
            o = (o + al - 1) / al * al;
            o += bytes;
        };
        // empty arrays still align the joint stack, except for the iterator forms which return before allocating
        bool a_allocs = !((p.fa == f_forward || p.fa == f_input) && na_actual == 0);
        bool b_allocs = !((p.fb == f_forward || p.fb == f_input) && nb_actual == 0);
        if (a_allocs)
            put(alignof(E), na_actual * sizeof(E));
        if (p.nv)
            put(alignof(F), p.nv * sizeof(F));
        if (b_allocs)
            put(alignof(F), nb_actual * sizeof(F));
        return o - start;
    }
    std::size_t actual_count(std::size_t n, int form)
    {
        return form == f_ilist ? n % 4 : n;
    }

    template <class JT>
    void verify_layout(JT& obj, const probe_state& ps, const std::string& kind)
    {
        auto base = reinterpret_cast<char*>(&obj);
        auto it   = ps.live.find(base);
        if (it == ps.live.end())
            viol("C11", "C11/" + kind + "/object-not-at-block-start", "the joint object is not at the start of an upstream block");
        auto lo = base + sizeof(JT), hi = base + it->second.bytes;
        struct piece
        {
            const char* p;
            std::size_t n, al;
            const char* what;
        };
        std::vector<piece> ps2;
        if (obj.a.on)
            ps2.push_back({reinterpret_cast<const char*>(obj.a.get().data()), obj.a.get().size() * sizeof(*obj.a.get().data()),
                           alignof(decltype(*obj.a.get().data())), "array a"});
        if (obj.v.on && obj.v.get().capacity())
            ps2.push_back({reinterpret_cast<const char*>(obj.v.get().data()), obj.v.get().capacity() * sizeof(*obj.v.get().data()),
                           alignof(decltype(*obj.v.get().data())), "vector v"});
        if (obj.b.on)
            ps2.push_back({reinterpret_cast<const char*>(obj.b.get().data()), obj.b.get().size() * sizeof(*obj.b.get().data()),
                           alignof(decltype(*obj.b.get().data())), "array b"});
        for (auto& q : ps2)
        {
            if (q.n == 0)
                continue;
            if (q.p < lo || q.p + q.n > hi)
                viol("C11", "C11/" + kind + "/outside-block", "%s (%zu bytes) lies outside the joint memory of its object", q.what, q.n);
            if (reinterpret_cast<std::uintptr_t>(q.p) % q.al)
                viol("C11", "C11/" + kind + "/misaligned", "%s is not aligned to %zu", q.what, q.al);
        }
        for (std::size_t i = 0; i < ps2.size(); ++i)
            for (std::size_t k = i + 1; k < ps2.size(); ++k)
                if (ps2[i].n && ps2[k].n && ps2[i].p < ps2[k].p + ps2[k].n && ps2[k].p < ps2[i].p + ps2[i].n)
                    viol("C11", "C11/" + kind + "/pieces-overlap", "%s and %s overlap", ps2[i].what, ps2[k].what);
        count("layouts_verified");
    }

    template <class JT>
    bool same_contents(const JT& x, const JT& y)
    {
        if (x.a.get().size() != y.a.get().size() || x.b.get().size() != y.b.get().size() || x.v.get().size() != y.v.get().size())
            return false;
        for (std::size_t i = 0; i < x.a.get().size(); ++i)
            if (!(x.a.get()[i] == y.a.get()[i]))
                return false;
        for (std::size_t i = 0; i < x.b.get().size(); ++i)
            if (!(x.b.get()[i] == y.b.get()[i]))
                return false;
        for (std::size_t i = 0; i < x.v.get().size(); ++i)
            if (!(x.v.get()[i] == y.v.get()[i]))
                return false;
        return true;
    }

    //=== C11 ===//
    template <class E, class F>
    void layout_kind(const args& a, const char* name)
    {
        std::string kind = name;
        if (a.kind != "all" && a.kind != kind)
            return;
        using JT  = J<E, F>;
        using ptr = joint_ptr<JT, probe_raw>;
        for (long c = a.from; c < a.to; ++c)
            run_case(kind, c, [&] {
                auto r  = case_rng(a.seed, a.group, kind, c);
                auto h1 = make_probe("A", false, "C11"), h2 = make_probe("B", false, "C11");
                // a request the joint memory cannot hold is refused: the refusal writes nothing outside the block and leaves the object
                // usable - the failure clause of C03 seen through the same observations
                // (when C03 is being decided, bytes written past the block are blamed on the refusal)
                h1->canary_prop = h2->canary_prop = cx().prop == "C03" ? "C03" : "C11"; // bytes written past the block: "throws out_of_fixed_memory instead of overrunning"
                h2->exact_align = false; // blocks of B are 16-aligned: padding differs from objects living in A
                probe_raw A(h1), B(h2);
                auto      live0 = L().live.size();
                {
                    std::vector<std::unique_ptr<ptr>> ptrs;
                    std::vector<probe_raw*>           owner;
                    std::vector<plan_t>               plans; // how each object's members were built (actual counts in na/nb)
                    auto start_of = [&](probe_raw* o) { return ((o == &B ? 0 : alignof(JT) % 16) + sizeof(JT)) % 16; };
                    while (cx().step < a.ops)
                    {
                        auto x = r.below(100);
                        if (x < 40 || ptrs.empty())
                        {
                            plan_t p;
                            p.na = r.below(12);
                            p.nv = r.chance(60) ? r.below(10) : 0;
                            p.nb = r.below(12);
                            p.fa = int(r.below(5));
                            p.fb = int(r.below(5));
                            bool        useB  = r.chance(30);
                            probe_raw&  al    = useB ? B : A;
                            std::size_t pmod  = useB ? 0 : alignof(JT) % 16; // address of the object modulo 16 for this probe
                            std::size_t start = (pmod + sizeof(JT)) % 16;
                            std::size_t need  = joint_need<E, F>(p, start, actual_count(p.na, p.fa), actual_count(p.nb, p.fb));
                            int         mode  = int(r.below(4)); // 0 exact, 1 one short, 2 generous, 3 zero
                            std::size_t add   = mode == 0 ? need : mode == 1 ? (need ? need - 1 : 0) : mode == 2 ? need + r.range(1, 64) : 0;
                            bool        fits  = add >= need;
                            op("allocate_joint on %s: a=%zu(%s) v=%zu b=%zu(%s) additional=%zu (%s, needs %zu)", useB ? "B" : "A", p.na, form_name(p.fa),
                               p.nv, p.nb, form_name(p.fb), add, fits ? "fits" : "does not fit", need);
                            auto constructed0 = L().live.size();
                            try
                            {
                                ptrs.emplace_back(new ptr(allocate_joint<JT>(al, joint_size(add), p, static_cast<const JT*>(nullptr))));
                                owner.push_back(&al);
                                plans.push_back(p);
                                plans.back().na = actual_count(p.na, p.fa);
                                plans.back().nb = actual_count(p.nb, p.fb);
                                if (!fits)
                                    viol("C11", "C11/" + kind + "/overrun-not-refused",
                                         "members needing %zu bytes were created in joint memory of %zu bytes without out_of_fixed_memory", need, add);
                                verify_layout(**ptrs.back(), *al.s, kind);
                                count("joint_created");
                                if (mode == 0)
                                    flag("exact-fit");
                            }
                            catch (out_of_fixed_memory&)
                            {
                                if (fits)
                                    viol("C11", "C11/" + kind + "/fit-refused", "out_of_fixed_memory although the joint memory (%zu bytes) is large enough (%zu needed)",
                                         add, need);
                                if (L().live.size() != constructed0)
                                    viol("C20", "C20/" + kind + "/elements-leaked", "after out_of_fixed_memory %zu elements are still alive",
                                         L().live.size() - constructed0);
                                count("out_of_fixed_memory");
                                flag("refused");
                            }
                            h1->check();
                            h2->check();
                            L().check("C11");
                        }
                        else if (x < 55)
                        {
                            // clone into the other allocator (different padding), mutate and destroy the source
                            auto i = r.below(ptrs.size());
                            if (!*ptrs[i])
                                continue;
                            bool       toB = owner[i] == &A ? r.chance(70) : r.chance(30);
                            probe_raw& al  = toB ? B : A;
                            op("clone_joint #%zu into %s", i, toB ? "B" : "A");
                            // what the source used, and what a fresh layout of the same members (copy forms) needs in the clone's block
                            plan_t cp = plans[i];
                            cp.fa = cp.fb = f_copy;
                            auto used_src   = joint_need<E, F>(plans[i], start_of(owner[i]), plans[i].na, plans[i].nb);
                            auto need_clone = joint_need<E, F>(cp, start_of(&al), cp.na, cp.nb);
                            try
                            {
                                ptrs.emplace_back(new ptr(clone_joint(al, **ptrs[i])));
                                owner.push_back(&al);
                                plans.push_back(cp);
                            }
                            catch (out_of_fixed_memory&)
                            {
                                if (need_clone <= used_src)
                                    viol("C11", "C11/" + kind + "/clone-does-not-fit",
                                         "clone_joint of a valid object threw out_of_fixed_memory although the clone's members need %zu bytes and %zu were given",
                                         need_clone, used_src);
                                viol_continue("C11", "C11/" + kind + "/clone-needs-more-padding",
                                              fmt("clone_joint of a valid object threw out_of_fixed_memory: the clone is given the %zu bytes the source used, but "
                                                  "laying the same members out in the clone's block (other address modulo the member alignment, or an empty "
                                                  "array that was built from an empty range) needs %zu",
                                                  used_src, need_clone));
                                continue;
                            }
                            auto& src = **ptrs[i];
                            auto& cl  = **ptrs.back();
                            verify_layout(cl, *al.s, kind);
                            if (!same_contents(src, cl))
                                viol("C11", "C11/" + kind + "/clone-differs", "the clone's contents differ from the source's");
                            // independent: change the source, then destroy it
                            for (auto& e : src.a.get())
                                e = E((unsigned char)0xEE);
                            for (auto& e : src.b.get())
                                e = F((unsigned char)0xEE);
                            for (std::size_t k = 0; k < cl.a.get().size(); ++k)
                                if (cl.a.get()[k] == E((unsigned char)0xEE) && !(src.a.get().size() == 0))
                                {
                                    // 0xEE is never a generated value
                                    viol("C11", "C11/" + kind + "/clone-not-independent", "changing the source changed the clone");
                                }
                            ptrs[i]->reset();
                            verify_layout(cl, *al.s, kind);
                            count("clones");
                            flag("clone");
                            h1->check();
                            h2->check();
                            L().check("C11");
                        }
                        else if (x < 62)
                        {
                            // the vector member grows inside the joint memory (reallocation: the old buffer is released while later
                            // allocations are alive); everything else must stay where and what it is
                            auto i = r.below(ptrs.size());
                            if (!*ptrs[i])
                                continue;
                            auto& obj = **ptrs[i];
                            op("grow the vector member of #%zu", i);
                            std::vector<E> a0(obj.a.get().begin(), obj.a.get().end());
                            std::vector<F> b0(obj.b.get().begin(), obj.b.get().end()), v0(obj.v.get().begin(), obj.v.get().end());
                            int pushed = 0;
                            try
                            {
                                for (int k = 0, n = int(r.range(1, 12)); k < n; ++k)
                                {
                                    obj.v.get().emplace_back((unsigned char)(0x40 + k));
                                    v0.emplace_back((unsigned char)(0x40 + k));
                                    ++pushed;
                                }
                            }
                            catch (out_of_fixed_memory&)
                            {
                                count("out_of_fixed_memory");
                            }
                            if (v0.size() > obj.v.get().size())
                                v0.pop_back(); // the element whose insertion failed
                            verify_layout(obj, *owner[i]->s, kind);
                            bool same = a0.size() == obj.a.get().size() && b0.size() == obj.b.get().size() && v0.size() == obj.v.get().size();
                            for (std::size_t k = 0; same && k < a0.size(); ++k)
                                same = a0[k] == obj.a.get()[k];
                            for (std::size_t k = 0; same && k < b0.size(); ++k)
                                same = b0[k] == obj.b.get()[k];
                            for (std::size_t k = 0; same && k < v0.size(); ++k)
                                same = v0[k] == obj.v.get()[k];
                            if (!same)
                                viol("C11", "C11/" + kind + "/member-overwritten", "after the vector member grew inside the joint memory another member's elements changed");
                            plans[i].nv = obj.v.get().capacity();
                            h1->check();
                            h2->check();
                            L().check("C11");
                            count("vector_growths", pushed);
                            flag("grow");
                        }
                        else if (x < 70)
                        {
                            auto i = r.below(ptrs.size());
                            op("reset #%zu", i);
                            auto out0 = owner[i]->s->live.size();
                            bool had  = bool(*ptrs[i]);
                            if (r.chance(50))
                                ptrs[i]->reset();
                            else
                                *ptrs[i] = nullptr;
                            if (had && owner[i]->s->live.size() != out0 - 1)
                                viol("C11", "C11/" + kind + "/reset-not-one-release", "reset() of an owning joint_ptr did not release exactly one block");
                            h1->check();
                            h2->check();
                            L().check("C11");
                            count("resets");
                        }
                        else if (x < 85 && ptrs.size() >= 2)
                        {
                            auto i = r.below(ptrs.size()), k = r.below(ptrs.size());
                            if (i == k)
                                continue;
                            if (r.chance(50))
                            {
                                op("swap #%zu #%zu", i, k);
                                swap(*ptrs[i], *ptrs[k]);
                                std::swap(owner[i], owner[k]);
                                std::swap(plans[i], plans[k]);
                            }
                            else
                            {
                                op("move-assign #%zu <- #%zu", i, k);
                                *ptrs[i] = std::move(*ptrs[k]);
                                owner[i] = owner[k];
                                plans[i] = plans[k];
                            }
                            if (*ptrs[i])
                                verify_layout(**ptrs[i], *owner[i]->s, kind);
                            h1->check();
                            h2->check();
                            L().check("C11");
                            flag("move");
                            count("moves");
                        }
                        else
                        {
                            auto i = r.below(ptrs.size());
                            op("move-construct from #%zu", i);
                            ptrs.emplace_back(new ptr(std::move(*ptrs[i])));
                            owner.push_back(owner[i]);
                            plans.push_back(plans[i]);
                            if (*ptrs[i])
                                viol("C12", "C12/" + kind + "/moved-from-owns", "a moved-from joint_ptr still owns an object");
                            flag("move");
                        }
                    }
                    op("destroy all");
                }
                h1->check();
                h2->check();
                L().check("C11");
                if (!h1->balanced() || !h2->balanced())
                    viol("C11", "C11/" + kind + "/block-not-released", "joint objects were destroyed but their blocks are still outstanding");
                if (L().live.size() != live0)
                    viol("C11", "C11/" + kind + "/elements-leaked", "%zu elements were not destroyed with their joint objects", L().live.size() - live0);
            });
    }

    //=== C20 ===//
    template <class Body>
    long count_constructions(Body&& body)
    {
        auto c0 = L().constructed;
        body();
        return L().constructed - c0;
    }

    // runs `attempt` with a failure at every construction index; attempt(fail) returns after cleaning up a successful creation
    template <class Attempt, class Check>
    void every_index(const std::string& kind, const char* form, Attempt&& attempt, Check&& after_failure)
    {
        L().countdown = -1;
        long total = count_constructions([&] { attempt(); });
        L().check("C20");
        count("successful_creations");
        for (long k = 0; k < total; ++k)
        {
            auto live0   = L().live.size();
            auto serial0 = L().serial;
            L().countdown = k;
            bool threw    = false;
            try
            {
                attempt();
            }
            catch (tagged_failure& t)
            {
                threw = true;
                if (t.serial != serial0 + 1)
                    viol("C20", "C20/" + kind + "/" + form + "/exception-changed", "the exception that arrived is not the one that was thrown");
            }
            catch (std::exception& e)
            {
                L().countdown = -1;
                viol("C20", "C20/" + kind + "/" + form + "/exception-replaced", "the injected exception was replaced by: %s", e.what());
            }
            L().countdown = -1;
            if (!threw)
                viol("C20", "C20/" + kind + "/" + form + "/exception-swallowed", "a constructor threw at construction %ld of %ld but no exception reached the caller", k,
                     total);
            count("failures_injected");
            L().check("C20");
            if (L().live.size() != live0)
                viol("C20", "C20/" + kind + "/" + form + "/elements-leaked", "after a failure at construction %ld of %ld, %zu elements are still alive", k, total,
                     L().live.size() - live0);
            after_failure(k, total);
        }
    }

    template <class E, class Alloc, class Balanced>
    void throw_smart(const std::string& kind, Alloc& alloc, Balanced&& balanced, rng& r)
    {
        // allocate_unique<E>
        every_index(kind, "allocate_unique", [&] { auto p = allocate_unique<E>(alloc, (unsigned char)5); }, [&](long, long) { balanced("allocate_unique"); });
        // allocate_unique<E[]> for lengths 0..16
        for (std::size_t n = 0; n <= 16; ++n)
        {
            op("allocate_unique<E[]>(%zu) with a failure at every element", n);
            every_index(kind, "allocate_unique_array", [&] { auto p = allocate_unique<E[]>(alloc, n); }, [&](long, long) { balanced("allocate_unique_array"); });
        }
        every_index(kind, "allocate_shared", [&] { auto p = allocate_shared<E>(alloc, (unsigned char)9); }, [&](long, long) { balanced("allocate_shared"); });
        // and the allocator is still usable
        auto p = allocate_unique<E[]>(alloc, r.range(1, 8));
        (void)p;
    }

    template <class E, class F>
    void throw_kind(const args& a, const char* name)
    {
        std::string kind = name;
        if (a.kind != "all" && a.kind != kind)
            return;
        using JT = J<E, F>;
        for (long c = a.from; c < a.to; ++c)
            run_case(kind, c, [&] {
                auto r     = case_rng(a.seed, a.group, kind, c);
                auto live0 = L().live.size();
                auto h     = make_probe("A", false, "C20");
                {
                    probe_raw A(h);
                    auto      bal = [&](const char* form) {
                        h->check();
                        if (!h->balanced())
                            viol("C20", "C20/" + kind + "/" + form + "/memory-not-released", "after the failed creation %zu blocks are still outstanding",
                                 h->live.size());
                    };
                    if (c % 3 == 0)
                    {
                        op("smart pointers on the instrumented allocator");
                        throw_smart<E>(kind, A, bal, r);
                    }
                    else if (c % 3 == 1)
                    {
                        op("smart pointers on memory_pool<node_pool> and memory_stack over the instrumented allocator");
                        {
                            memory_pool<node_pool, probe_raw> pool((sizeof(E) * 20 + 64 + 15) / 16 * 16, 8192, A); // node size a multiple of 16: allocate_shared needs max alignment
                            auto cap0 = pool.capacity_left();
                            throw_smart<E>(kind + "+pool", pool, [&](const char* form) {
                                if (pool.capacity_left() != cap0)
                                    viol("C20", "C20/" + kind + "+pool/" + form + "/memory-not-released", "pool capacity %zu -> %zu after a failed creation", cap0,
                                         pool.capacity_left());
                            }, r);
                        }
                        {
                            memory_stack<probe_raw> st(8192, A);
                            throw_smart<E>(kind + "+stack", st, [&](const char*) {}, r);
                        }
                        bal("real-allocators");
                    }
                    // joint objects: every array form for member a and b, failure at every construction
                    plan_t p;
                    p.na = r.below(7);
                    p.nv = r.below(5);
                    p.nb = r.below(7);
                    for (int fa = 0; fa < n_forms; ++fa)
                    {
                        p.fa = fa;
                        p.fb = int(r.below(n_forms));
                        // a source object for the copy / move forms (rebuilt for every attempt of the move form, elements are moved from)
                        plan_t sp;
                        sp.na    = p.na;
                        sp.nb    = p.nb;
                        auto src = allocate_joint<JT>(A, joint_size(1024), sp, static_cast<const JT*>(nullptr));
                        op("allocate_joint a=%zu(%s) v=%zu b=%zu(%s), failure at every construction", p.na, form_name(p.fa), p.nv, p.nb, form_name(p.fb));
                        auto out0 = h->live.size();
                        every_index(kind, (std::string("allocate_joint/") + form_name(fa)).c_str(),
                                    [&] {
                                        plan_t q = p;
                                        auto   j = allocate_joint<JT>(A, joint_size(2048), q, src.get());
                                    },
                                    [&](long, long) {
                                        h->check();
                                        if (h->live.size() != out0)
                                            viol("C20", "C20/" + kind + "/allocate_joint/memory-not-released", "the joint block of a failed creation is outstanding");
                                    });
                        // clone
                        op("clone_joint, failure at every construction");
                        every_index(kind, "clone_joint", [&] { auto cl = clone_joint(A, *src); },
                                    [&](long, long) {
                                        h->check();
                                        if (h->live.size() != out0)
                                            viol("C20", "C20/" + kind + "/clone_joint/memory-not-released", "the block of a failed clone is outstanding");
                                    });
                    }
                    // a failed joint_array gives its joint memory back: build it again in exactly fitting memory
                    for (int fb = 0; fb < n_forms; ++fb)
                    {
                        plan_t q;
                        q.na = r.below(4);
                        q.nb = r.range(1, 6);
                        q.fa = f_size;
                        q.fb = fb;
                        plan_t sp;
                        sp.na    = q.na;
                        sp.nb    = q.nb;
                        auto src = allocate_joint<JT>(A, joint_size(1024), sp, static_cast<const JT*>(nullptr));
                        std::size_t start = (alignof(JT) % 16 + sizeof(JT)) % 16;
                        auto        nb    = fb == f_copy || fb == f_move ? q.nb : actual_count(q.nb, fb);
                        if (nb == 0)
                            continue;
                        std::size_t need = joint_need<E, F>(q, start, q.na, nb);
                        // construction index of b's elements: after a's na elements (and the source/temporaries made by build())
                        for (std::size_t k = 0; k < nb; ++k)
                        {
                            op("retry: array b (%s, %zu elements) fails at element %zu, is built again in exactly fitting joint memory", form_name(fb), nb, k);
                            q.retry_b = true;
                            q.retried = false;
                            // count constructions up to b's k-th element: run once without failure to learn the index of b's first element
                            plan_t probe_plan = q;
                            probe_plan.retry_b = false;
                            auto c0 = L().constructed;
                            {
                                auto tmp = allocate_joint<JT>(A, joint_size(need), probe_plan, src.get());
                            }
                            long total  = L().constructed - c0;
                            long b_first = total - long(nb); // b's elements are the last nb constructions (library-internal ones)
                            if (fb == f_move)
                                src = allocate_joint<JT>(A, joint_size(1024), sp, static_cast<const JT*>(nullptr));
                            auto live1    = L().live.size();
                            L().countdown = b_first + long(k);
                            try
                            {
                                auto j = allocate_joint<JT>(A, joint_size(need), q, src.get());
                                L().countdown = -1;
                                if (!q.retried)
                                    continue; // the failure hit something else (temporaries of the harness)
                                verify_layout(*j, *h, kind);
                                count("retries_succeeded");
                                flag("retry");
                            }
                            catch (out_of_fixed_memory&)
                            {
                                L().countdown = -1;
                                viol("C20", "C20/" + kind + "/joint_array/" + form_name(fb) + "/joint-memory-not-released",
                                     "a joint_array (%s form, %zu elements) whose element %zu threw left its joint memory consumed: building the same array again in "
                                     "exactly fitting memory throws out_of_fixed_memory",
                                     form_name(fb), nb, k);
                            }
                            catch (tagged_failure&)
                            {
                                L().countdown = -1; // the failure hit the retry itself or a harness temporary: not judged
                            }
                            L().check("C20");
                            if (L().live.size() != live1)
                                viol("C20", "C20/" + kind + "/joint_array/elements-leaked", "%zu elements are alive after the object was destroyed",
                                     L().live.size() - live1);
                            if (fb == f_move)
                                src = allocate_joint<JT>(A, joint_size(1024), sp, static_cast<const JT*>(nullptr));
                        }
                    }
                    h->check();
                }
                L().check("C20");
                if (!h->balanced())
                    viol("C20", "C20/" + kind + "/memory-not-released", "blocks outstanding at the end of the case");
                if (L().live.size() != live0)
                    viol("C20", "C20/" + kind + "/elements-leaked", "%zu elements alive at the end of the case", L().live.size() - live0);
                flag("throw");
            });
    }

    template <class E, class F>
    void both(const args& a, const char* name)
    {
        if (a.group == "layout")
            layout_kind<E, F>(a, name);
        else
            throw_kind<E, F>(a, name);
    }
} // namespace

int main(int argc, char** argv)
{
    auto a = parse_args(argc, argv, "h_joint");
    install_recording_handlers();
    both<elem<1, 1>, elem<4, 4>>(a, "J<1/1,4/4>");
    both<elem<3, 1>, elem<16, 16>>(a, "J<3/1,16/16>");
    both<elem<16, 16>, elem<2, 2>>(a, "J<16/16,2/2>");
    both<elem<24, 8>, elem<12, 4>>(a, "J<24/8,12/4>");
    both<elem<8, 8>, elem<32, 16>>(a, "J<8/8,32/16>");
    both<elem<6, 2>, elem<5, 1>>(a, "J<6/2,5/1>");
    finish();
    return 0;
}
