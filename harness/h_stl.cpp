// C10: STL containers on RawAllocators return every node to the allocator it came from; std_allocator equality;
//      X_node_size<T> is large enough for container X<T>.
// groups: "programs" (pairs of containers over two instrumented leaves, differential against std::allocator containers),
//         "nodesize" (recording allocator vs X_node_size<T>, then the container on a real memory_pool created with the constant;
//                     element type grid in h_stl_ns*.cpp)
#include <algorithm>
#include <deque>
#include <forward_list>
#include <list>
#include <map>
#include <set>
#include <string>
#include <unordered_map>
#include <unordered_set>
#include <vector>

#include <foonathan/memory/container.hpp>
#include <foonathan/memory/fallback_allocator.hpp>
#include <foonathan/memory/smart_ptr.hpp>
#include <foonathan/memory/std_allocator.hpp>

#include "common/core.hpp"

using namespace vf;
using namespace foonathan::memory;

void run_nodesize_0(const vf::args&);
void run_nodesize_1(const vf::args&);
void run_nodesize_2(const vf::args&);
void run_nodesize_3(const vf::args&);

// instrumented leaves whose propagation the user decides (propagation_traits specialised below): V = copy | move<<1 | swap<<2
template <int V>
struct prop_leaf : vf::probe_raw
{
    using vf::probe_raw::probe_raw;
};
// a user's allocator with shared semantics: copies refer to the same state, operator== says whether two copies do
struct shared_leaf : vf::probe_raw
{
    using vf::probe_raw::probe_raw;
    friend bool operator==(const shared_leaf& a, const shared_leaf& b) noexcept
    {
        return a.s == b.s;
    }
    friend bool operator!=(const shared_leaf& a, const shared_leaf& b) noexcept
    {
        return !(a == b);
    }
};
namespace foonathan
{
    namespace memory
    {
        template <>
        struct is_shared_allocator<shared_leaf> : std::true_type
        {
        };
        template <int V>
        struct propagation_traits<prop_leaf<V>>
        {
            using propagate_on_container_copy_assignment = std::integral_constant<bool, (V & 1) != 0>;
            using propagate_on_container_move_assignment = std::integral_constant<bool, (V & 2) != 0>;
            using propagate_on_container_swap            = std::integral_constant<bool, (V & 4) != 0>;
            template <class AllocReference>
            static AllocReference select_on_container_copy_construction(const AllocReference& alloc)
            {
                return alloc;
            }
        };
    } // namespace memory
} // namespace foonathan

namespace
{
    struct val
    {
        long v;
        long pad[2];
        val(long x = 0) : v(x), pad{x, ~x} {}
        bool operator<(const val& o) const
        {
            return v < o.v;
        }
        bool operator==(const val& o) const
        {
            return v == o.v;
        }
    };
    struct val_hash
    {
        std::size_t operator()(const val& x) const
        {
            return std::hash<long>()(x.v);
        }
    };

    // adapters: uniform insert / erase / contents for every container kind, with allocator type A<T>
    template <template <class> class AllocOf>
    struct kinds
    {
        struct list_k
        {
            static constexpr const char* name = "list";
            using C                           = std::list<val, AllocOf<val>>;
            using Ref                         = std::list<val>;
            template <class X>
            static void insert(X& c, long v, rng& r)
            {
                if (r.chance(50))
                    c.push_back(val(v));
                else
                    c.push_front(val(v));
            }
            template <class X>
            static void erase(X& c, rng& r)
            {
                if (c.empty())
                    return;
                auto it = c.begin();
                std::advance(it, long(r.below(c.size())));
                c.erase(it);
            }
            static constexpr bool ordered = true, can_splice = true;
        };
        struct flist_k
        {
            static constexpr const char* name = "forward_list";
            using C                           = std::forward_list<val, AllocOf<val>>;
            using Ref                         = std::forward_list<val>;
            template <class X>
            static void insert(X& c, long v, rng&)
            {
                c.push_front(val(v));
            }
            template <class X>
            static void erase(X& c, rng&)
            {
                if (!c.empty())
                    c.pop_front();
            }
            static constexpr bool ordered = true, can_splice = false;
        };
        struct set_k
        {
            static constexpr const char* name = "set";
            using C                           = std::set<val, std::less<val>, AllocOf<val>>;
            using Ref                         = std::set<val>;
            template <class X>
            static void insert(X& c, long v, rng&)
            {
                c.insert(val(v));
            }
            template <class X>
            static void erase(X& c, rng& r)
            {
                if (c.empty())
                    return;
                auto it = c.begin();
                std::advance(it, long(r.below(c.size())));
                c.erase(it);
            }
            static constexpr bool ordered = true, can_splice = false;
        };
        struct multiset_k
        {
            static constexpr const char* name = "multiset";
            using C                           = std::multiset<val, std::less<val>, AllocOf<val>>;
            using Ref                         = std::multiset<val>;
            template <class X>
            static void insert(X& c, long v, rng&)
            {
                c.insert(val(v % 17));
            }
            template <class X>
            static void erase(X& c, rng& r)
            {
                set_k::erase(c, r);
            }
            static constexpr bool ordered = true, can_splice = false;
        };
        struct map_k
        {
            static constexpr const char* name = "map";
            using C                           = std::map<long, val, std::less<long>, AllocOf<std::pair<const long, val>>>;
            using Ref                         = std::map<long, val>;
            template <class X>
            static void insert(X& c, long v, rng&)
            {
                c[v % 97] = val(v);
            }
            template <class X>
            static void erase(X& c, rng& r)
            {
                set_k::erase(c, r);
            }
            static constexpr bool ordered = true, can_splice = false;
        };
        struct multimap_k
        {
            static constexpr const char* name = "multimap";
            using C                           = std::multimap<long, val, std::less<long>, AllocOf<std::pair<const long, val>>>;
            using Ref                         = std::multimap<long, val>;
            template <class X>
            static void insert(X& c, long v, rng&)
            {
                c.insert({v % 13, val(v)});
            }
            template <class X>
            static void erase(X& c, rng& r)
            {
                set_k::erase(c, r);
            }
            static constexpr bool ordered = false, can_splice = false; // equal keys: order among them is compared as a multiset
        };
        struct uset_k
        {
            static constexpr const char* name = "unordered_set";
            using C                           = std::unordered_set<val, val_hash, std::equal_to<val>, AllocOf<val>>;
            using Ref                         = std::unordered_set<val, val_hash>;
            template <class X>
            static void insert(X& c, long v, rng&)
            {
                c.insert(val(v));
            }
            template <class X>
            static void erase(X& c, rng&)
            {
                // iteration order is not part of the contract: erase the smallest element
                if (c.empty())
                    return;
                auto m = c.begin();
                for (auto it = c.begin(); it != c.end(); ++it)
                    if (it->v < m->v)
                        m = it;
                c.erase(m);
            }
            static constexpr bool ordered = false, can_splice = false;
        };
        struct umap_k
        {
            static constexpr const char* name = "unordered_map";
            using C   = std::unordered_map<long, val, std::hash<long>, std::equal_to<long>, AllocOf<std::pair<const long, val>>>;
            using Ref = std::unordered_map<long, val>;
            template <class X>
            static void insert(X& c, long v, rng&)
            {
                c[v % 211] = val(v);
            }
            template <class X>
            static void erase(X& c, rng&)
            {
                if (c.empty())
                    return;
                auto m = c.begin();
                for (auto it = c.begin(); it != c.end(); ++it)
                    if (it->first < m->first)
                        m = it;
                c.erase(m);
            }
            static constexpr bool ordered = false, can_splice = false;
        };
        struct vector_k
        {
            static constexpr const char* name = "vector";
            using C                           = std::vector<val, AllocOf<val>>;
            using Ref                         = std::vector<val>;
            template <class X>
            static void insert(X& c, long v, rng& r)
            {
                if (r.chance(80) || c.empty())
                    c.push_back(val(v));
                else
                    c.insert(c.begin() + long(r.below(c.size())), val(v));
            }
            template <class X>
            static void erase(X& c, rng& r)
            {
                if (c.empty())
                    return;
                if (r.chance(20))
                    c.shrink_to_fit();
                else
                    c.erase(c.begin() + long(r.below(c.size())));
            }
            static constexpr bool ordered = true, can_splice = false;
        };
        struct deque_k
        {
            static constexpr const char* name = "deque";
            using C                           = std::deque<val, AllocOf<val>>;
            using Ref                         = std::deque<val>;
            template <class X>
            static void insert(X& c, long v, rng& r)
            {
                if (r.chance(50))
                    c.push_back(val(v));
                else
                    c.push_front(val(v));
            }
            template <class X>
            static void erase(X& c, rng& r)
            {
                if (c.empty())
                    return;
                if (r.chance(50))
                    c.pop_front();
                else
                    c.pop_back();
            }
            static constexpr bool ordered = true, can_splice = false;
        };
        struct string_k
        {
            static constexpr const char* name = "basic_string";
            using C                           = std::basic_string<char, std::char_traits<char>, AllocOf<char>>;
            using Ref                         = std::string;
            template <class X>
            static void insert(X& c, long v, rng& r)
            {
                c.append(std::size_t(r.range(1, 40)), char('a' + v % 26));
            }
            template <class X>
            static void erase(X& c, rng& r)
            {
                if (c.empty())
                    return;
                if (r.chance(20))
                    c.shrink_to_fit();
                else
                    c.erase(r.below(c.size()), r.range(1, 20));
            }
            static constexpr bool ordered = true, can_splice = false;
        };
    };

    template <class T>
    using typed_alloc = std_allocator<T, probe_raw>;
    template <class T>
    using erased_alloc = any_std_allocator<T>;

    long flat(const val& x)
    {
        return x.v;
    }
    long flat(char c)
    {
        return c;
    }
    template <class A, class B>
    long flat(const std::pair<A, B>& p)
    {
        return long(p.first) * 1000003 + flat(p.second);
    }
    template <class X>
    std::vector<long> contents(const X& c, bool ordered)
    {
        std::vector<long> v;
        for (auto& e : c)
            v.push_back(flat(e));
        if (!ordered)
            std::sort(v.begin(), v.end());
        return v;
    }

    // which leaf does this allocator object allocate from? (read from the allocator itself by a probing allocation)
    template <class Alloc>
    int leaf_of(Alloc al, probe_state& l1, probe_state& l2)
    {
        auto s1 = l1.served, s2 = l2.served;
        auto p  = al.allocate(1);
        int  w  = l1.served != s1 ? 1 : l2.served != s2 ? 2 : 0;
        al.deallocate(p, 1);
        return w;
    }

    template <class C, class R>
    auto splice_impl(int, C& c1, C& c2, R& r1, R& r2) -> decltype(c1.splice(c1.end(), c2), void())
    {
        c1.splice(c1.end(), c2);
        r1.splice(r1.end(), r2);
    }
    template <class... X>
    void splice_impl(long, X&...)
    {
    }

    // stateless instrumented allocators of two different types (state in statics): behind the type erasure they must not compare equal
    template <int Tag>
    struct sl_alloc
    {
        using is_stateful = std::false_type;
        static probe_handle& h()
        {
            static probe_handle p;
            return p;
        }
        void* allocate_node(std::size_t size, std::size_t al)
        {
            return h()->acquire(false, 1, size, al);
        }
        void deallocate_node(void* p, std::size_t size, std::size_t al) noexcept
        {
            h()->release(false, p, 1, size, al);
        }
        void* allocate_array(std::size_t c, std::size_t size, std::size_t al)
        {
            return h()->acquire(true, c, size, al);
        }
        void deallocate_array(void* p, std::size_t c, std::size_t size, std::size_t al) noexcept
        {
            h()->release(true, p, c, size, al);
        }
    };
    struct stateful_leaves
    {
        static constexpr const char* suffix = "";
        probe_raw L1, L2;
        stateful_leaves(probe_handle h1, probe_handle h2) : L1(h1), L2(h2) {}
    };
    struct stateless_leaves
    {
        static constexpr const char* suffix = "-stateless";
        sl_alloc<1> L1;
        sl_alloc<2> L2;
        stateless_leaves(probe_handle h1, probe_handle h2)
        {
            sl_alloc<1>::h() = h1;
            sl_alloc<2>::h() = h2;
        }
    };

    // a composition as the containers' allocator: fallback_allocator over references to two composable allocators that share one
    // probe; the first has a small byte budget, so a container's nodes and arrays are spread over both and every release has to
    // find its way back, with the shape of the allocation, through the composable interface of the references
    template <int Tag>
    struct comp_leaf
    {
        using is_stateful = std::true_type;
        probe_handle                      s;
        std::size_t                       capacity;
        std::shared_ptr<std::set<void*>>  mine = std::make_shared<std::set<void*>>();
        std::shared_ptr<std::size_t>      used = std::make_shared<std::size_t>(0);
        comp_leaf(probe_handle h, std::size_t cap) : s(std::move(h)), capacity(cap) {}
        void* take(bool arr, std::size_t c, std::size_t size, std::size_t al)
        {
            void* p = s->acquire(arr, c, size, al);
            mine->insert(p);
            *used += c * size;
            return p;
        }
        void give(bool arr, void* p, std::size_t c, std::size_t size, std::size_t al) noexcept
        {
            if (!mine->erase(p))
                viol_nothrow("C10", "C10/" + cx().kind + "/released-to-wrong-allocator",
                             "memory was released to a part of the composition that did not allocate it");
            else
                *used -= std::min(*used, c * size);
            s->release(arr, p, c, size, al);
        }
        void* allocate_node(std::size_t size, std::size_t al)
        {
            if (*used + size > capacity)
                throw out_of_fixed_memory(allocator_info{"vf::comp_leaf", this}, size);
            return take(false, 1, size, al);
        }
        void* allocate_array(std::size_t c, std::size_t size, std::size_t al)
        {
            if (*used + c * size > capacity)
                throw out_of_fixed_memory(allocator_info{"vf::comp_leaf", this}, c * size);
            return take(true, c, size, al);
        }
        void* try_allocate_node(std::size_t size, std::size_t al) noexcept
        {
            return *used + size > capacity ? nullptr : take(false, 1, size, al);
        }
        void* try_allocate_array(std::size_t c, std::size_t size, std::size_t al) noexcept
        {
            return *used + c * size > capacity ? nullptr : take(true, c, size, al);
        }
        void deallocate_node(void* p, std::size_t size, std::size_t al) noexcept
        {
            give(false, p, 1, size, al);
        }
        void deallocate_array(void* p, std::size_t c, std::size_t size, std::size_t al) noexcept
        {
            give(true, p, c, size, al);
        }
        bool try_deallocate_node(void* p, std::size_t size, std::size_t al) noexcept
        {
            if (!mine->count(p))
                return false;
            give(false, p, 1, size, al);
            return true;
        }
        bool try_deallocate_array(void* p, std::size_t c, std::size_t size, std::size_t al) noexcept
        {
            if (!mine->count(p))
                return false;
            give(true, p, c, size, al);
            return true;
        }
        std::size_t max_node_size() const noexcept
        {
            return std::size_t(1) << 30;
        }
        std::size_t max_array_size() const noexcept
        {
            return std::size_t(1) << 30;
        }
        std::size_t max_alignment() const noexcept
        {
            return 64;
        }
    };
    using comp_t = fallback_allocator<allocator_reference<comp_leaf<0>>, allocator_reference<comp_leaf<1>>>;
    template <class T>
    using comp_alloc = std_allocator<T, comp_t>;
    struct composed_leaves
    {
        static constexpr const char* suffix = "-composed";
        comp_leaf<0> a1, a2;
        comp_leaf<1> b1, b2;
        comp_t       L1, L2;
        composed_leaves(probe_handle h1, probe_handle h2)
        : a1(h1, 764), a2(h2, 300), b1(h1, std::size_t(1) << 28), b2(h2, std::size_t(1) << 28),
          L1(allocator_reference<comp_leaf<0>>(a1), allocator_reference<comp_leaf<1>>(b1)),
          L2(allocator_reference<comp_leaf<0>>(a2), allocator_reference<comp_leaf<1>>(b2))
        {
        }
    };

    struct shared_leaves
    {
        static constexpr const char* suffix = "-shared";
        shared_leaf L1, L2;
        shared_leaves(probe_handle h1, probe_handle h2) : L1(h1), L2(h2) {}
    };
    template <class T>
    using shared_alloc = std_allocator<T, shared_leaf>;

    template <int V>
    struct prop_leaves
    {
        static constexpr const char* suffix = V == 6 ? "-propagate<move,swap>" : V == 1 ? "-propagate<copy>" : V == 4 ? "-propagate<swap>" : "-propagate<none>";
        // what the user of the allocator asked for: decides which swaps the program may issue
        static constexpr bool swap_propagates = (V & 4) != 0;
        prop_leaf<V> L1, L2;
        prop_leaves(probe_handle h1, probe_handle h2) : L1(h1), L2(h2) {}
    };
    template <class L>
    constexpr auto declared_swap(int) -> decltype(L::swap_propagates)
    {
        return L::swap_propagates;
    }
    template <class L>
    constexpr bool declared_swap(long)
    {
        return true; // the library's default for every other leaf type
    }
    template <int V>
    struct prop_alloc_of
    {
        template <class T>
        using type = std_allocator<T, prop_leaf<V>>;
    };

    template <class K, bool Erased, class Leaves = stateful_leaves>
    void program_kind(const args& a)
    {
        using C   = typename K::C;
        using Ref = typename K::Ref;
        using AL  = typename C::allocator_type;
        std::string kind = std::string(K::name) + (Erased ? "/any_std_allocator" : "/std_allocator") + Leaves::suffix;
        if (a.kind != "all" && a.kind != kind)
            return;
        for (long c = a.from; c < a.to; ++c)
            run_case(kind, c, [&] {
                auto r  = case_rng(a.seed, a.group, kind, c);
                auto h1 = make_probe("leaf1", false, "C10"), h2 = make_probe("leaf2", false, "C10");
                // behind the type erasure the same observations are those of C09 (allocator_storage in type-erased form releases each block
                // to the allocator it came from)
                also_scope as(Erased ? "C09" : "", "C10");
                {
                    Leaves lv(h1, h2);
                    auto&  L1    = lv.L1;
                    auto&  L2    = lv.L2;
                    auto   check = [&] {
                        h1->check();
                        h2->check();
                    };
                    bool same = r.chance(30);
                    op("two %s containers bound to %s", K::name, same ? "the same allocator object" : "different allocator objects");
                    std::unique_ptr<C>   c1(new C(AL(L1))), c2(same ? new C(AL(L1)) : new C(AL(L2)));
                    std::unique_ptr<Ref> r1(new Ref), r2(new Ref);
                    long                 next = 1;
                    auto compare = [&](const char* after) {
                        if (contents(*c1, K::ordered) != contents(*r1, K::ordered) || contents(*c2, K::ordered) != contents(*r2, K::ordered))
                            viol("C10", "C10/" + kind + "/contents-differ", "contents differ from the same operations on std::allocator containers after %s", after);
                    };
                    auto equality = [&](const char* after) {
                        int  w1 = leaf_of(c1->get_allocator(), *h1, *h2), w2 = leaf_of(c2->get_allocator(), *h1, *h2);
                        bool eq = c1->get_allocator() == c2->get_allocator();
                        if (eq != (w1 == w2))
                            viol("C10", "C10/" + kind + (eq ? "/equal-but-different-target" : "/unequal-but-same-target"),
                                 "the allocators of two containers compare %s although they allocate from %s (after %s)", eq ? "equal" : "unequal",
                                 w1 == w2 ? "the same allocator object" : "different allocator objects", after);
                        count("equality_checks");
                        return eq;
                    };
                    equality("construction");
                    while (cx().step < a.ops)
                    {
                        auto x = r.below(100);
                        if (x < 40)
                        {
                            bool first = r.chance(50);
                            int  n     = int(r.range(1, 6));
                            op("insert %d into c%d", n, first ? 1 : 2);
                            for (int i = 0; i < n; ++i)
                            {
                                rng ra = r, rb = r;
                                if (first)
                                {
                                    K::insert(*c1, next, ra);
                                    K::insert(*r1, next, rb);
                                }
                                else
                                {
                                    K::insert(*c2, next, ra);
                                    K::insert(*r2, next, rb);
                                }
                                r.next();
                                ++next;
                            }
                            count("inserts", n);
                        }
                        else if (x < 60)
                        {
                            bool first = r.chance(50);
                            op("erase from c%d", first ? 1 : 2);
                            rng ra = r, rb = r;
                            if (first)
                            {
                                K::erase(*c1, ra);
                                K::erase(*r1, rb);
                            }
                            else
                            {
                                K::erase(*c2, ra);
                                K::erase(*r2, rb);
                            }
                            r.next();
                        }
                        else if (x < 65)
                        {
                            op("clear c1");
                            c1->clear();
                            r1->clear();
                        }
                        else if (x < 72)
                        {
                            op("c1 = c2 (copy assignment)");
                            *c1 = *c2;
                            *r1 = *r2;
                            flag("assign");
                        }
                        else if (x < 79)
                        {
                            op("c2 = std::move(c1) (move assignment)");
                            *c2 = std::move(*c1);
                            *r2 = std::move(*r1);
                            c1->clear(); // valid but unspecified: bring both to a known state
                            r1->clear();
                            flag("assign");
                        }
                        else if (x < 84)
                        {
                            op("swap(c1, c2)");
                            // with non-propagating unequal allocators swap is undefined: only issued if propagation is on or allocators are equal
                            // (propagation as the allocator's author declared it; for the library's own defaults that is "on")
                            if (declared_swap<Leaves>(0) || c1->get_allocator() == c2->get_allocator())
                            {
                                using std::swap;
                                swap(*c1, *c2);
                                swap(*r1, *r2);
                                flag("swap");
                            }
                        }
                        else if (x < 88)
                        {
                            op("c1 = copy of c2 (copy construction)");
                            c1.reset(new C(*c2));
                            r1.reset(new Ref(*r2));
                            flag("copy-construct");
                        }
                        else if (x < 92)
                        {
                            op("c1 = copy of c2 with allocator L1");
                            c1.reset(new C(*c2, AL(L1)));
                            r1.reset(new Ref(*r2));
                            flag("copy-construct");
                        }
                        else if (x < 96)
                        {
                            // with-allocator move: if the allocators compare equal the buffer/nodes are stolen, otherwise elements are moved
                            op("c1 = move of c2 with allocator L1");
                            c1.reset(new C(std::move(*c2), AL(L1)));
                            r1.reset(new Ref(std::move(*r2)));
                            c2->clear();
                            r2->clear();
                            flag("move-with-allocator");
                        }
                        else if (K::can_splice)
                        {
                            // what a contract-respecting program does: splice only between containers with equal allocators
                            if (c1->get_allocator() == c2->get_allocator())
                            {
                                op("c1.splice(end, c2)");
                                splice_impl(0, *c1, *c2, *r1, *r2);
                                flag("splice");
                            }
                        }
                        check(); // a node released to a leaf that did not hand it out is raised here
                        compare("the last operation");
                        if (cx().step % 8 == 0)
                            equality("the last operation");
                    }
                    op("destroy both");
                    c1.reset();
                    c2.reset();
                    check();
                }
                h1->check();
                h2->check();
                if (!h1->balanced() || !h2->balanced())
                    viol("C10", "C10/" + kind + "/leaf-not-balanced", "containers were destroyed but an allocator still holds %zu + %zu live blocks", h1->live.size(),
                         h2->live.size());
                flag("program");
            });
    }
    // number of distinct control blocks behind a set of shared_ptrs (copies share one)
    std::size_t sp_blocks(const std::vector<std::shared_ptr<val>>& sp)
    {
        std::set<const void*> s;
        for (auto& p : sp)
            s.insert(p.get());
        return s.size();
    }

    // allocate_shared / allocate_unique bound to two leaves
    void smart_kind(const args& a)
    {
        std::string kind = "smart-pointers";
        if (a.kind != "all" && a.kind != kind)
            return;
        for (long c = a.from; c < a.to; ++c)
            run_case(kind, c, [&] {
                auto r  = case_rng(a.seed, a.group, kind, c);
                auto h1 = make_probe("leaf1", false, "C10"), h2 = make_probe("leaf2", false, "C10");
                {
                    probe_raw L1(h1), L2(h2);
                    std::vector<std::shared_ptr<val>> sp;
                    std::vector<std::unique_ptr<val, allocator_deleter<val, probe_raw>>> up;
                    while (cx().step < a.ops)
                    {
                        auto x = r.below(100);
                        if (x < 30)
                        {
                            op("allocate_shared on leaf%d", x % 2 + 1);
                            sp.push_back(allocate_shared<val>(x % 2 ? L2 : L1, long(x)));
                        }
                        else if (x < 55)
                        {
                            op("allocate_unique on leaf%d", x % 2 + 1);
                            up.push_back(allocate_unique<val>(x % 2 ? L2 : L1, long(x)));
                        }
                        else if (x < 70 && !sp.empty())
                        {
                            op("copy / drop shared_ptr");
                            auto k = r.below(sp.size());
                            auto cp = sp[k];
                            sp.erase(sp.begin() + long(k));
                            if (r.chance(50))
                                sp.push_back(cp);
                        }
                        else if (x < 85 && !up.empty())
                        {
                            op("move / drop unique_ptr");
                            auto k = r.below(up.size());
                            auto mv = std::move(up[k]);
                            up.erase(up.begin() + long(k));
                            if (r.chance(50))
                                up.push_back(std::move(mv));
                        }
                        else if (x < 93)
                        {
                            // an array whose element constructor throws: the memory obtained for it goes back to the same allocator,
                            // as the array it was obtained as
                            struct thrower
                            {
                                long v;
                                thrower()
                                {
                                    if (--countdown() == 0)
                                        throw 42;
                                    v = 7;
                                }
                                static long& countdown()
                                {
                                    static long c = 0;
                                    return c;
                                }
                            };
                            if (r.chance(30))
                            {
                                op("allocate_unique<T> on leaf%d, the constructor throws", x % 2 + 1);
                                thrower::countdown() = 1;
                                try
                                {
                                    auto one = allocate_unique<thrower>(x % 2 ? L2 : L1);
                                    viol("C10", "C10/" + kind + "/harness", "the injected constructor failure did not propagate");
                                }
                                catch (int)
                                {
                                }
                                h1->check();
                                h2->check();
                                count("throwing_scalar_creations");
                                continue;
                            }
                            std::size_t n = r.range(1, 6);
                            thrower::countdown() = long(r.range(1, n));
                            op("allocate_unique<T[]>(%zu) on leaf%d, element %ld throws", n, x % 2 + 1, thrower::countdown());
                            try
                            {
                                auto arr = allocate_unique<thrower[]>(x % 2 ? L2 : L1, n);
                                viol("C10", "C10/" + kind + "/harness", "the injected constructor failure did not propagate");
                            }
                            catch (int)
                            {
                            }
                            count("throwing_array_creations");
                        }
                        else if (up.size() >= 2)
                        {
                            op("swap two unique_ptrs");
                            std::swap(up[0], up[up.size() - 1]);
                        }
                        h1->check();
                        h2->check();
                        if (h1->live.size() + h2->live.size() != sp_blocks(sp) + up.size())
                            viol("C10", "C10/" + kind + "/memory-not-returned", "%zu blocks are live on the allocators, the smart pointers own %zu",
                                 h1->live.size() + h2->live.size(), sp_blocks(sp) + up.size());
                        count("smart_ops");
                    }
                }
                h1->check();
                h2->check();
                if (!h1->balanced() || !h2->balanced())
                    viol("C10", "C10/" + kind + "/leaf-not-balanced", "smart pointers were destroyed but an allocator still holds live blocks");
                flag("program");
            });
    }

    template <bool Erased>
    void all_programs(const args& a)
    {
        using KS = typename std::conditional<Erased, kinds<erased_alloc>, kinds<typed_alloc>>::type;
        program_kind<typename KS::list_k, Erased>(a);
        program_kind<typename KS::flist_k, Erased>(a);
        program_kind<typename KS::set_k, Erased>(a);
        program_kind<typename KS::multiset_k, Erased>(a);
        program_kind<typename KS::map_k, Erased>(a);
        program_kind<typename KS::multimap_k, Erased>(a);
        program_kind<typename KS::uset_k, Erased>(a);
        program_kind<typename KS::umap_k, Erased>(a);
        program_kind<typename KS::vector_k, Erased>(a);
        program_kind<typename KS::deque_k, Erased>(a);
        program_kind<typename KS::string_k, Erased>(a);
    }
} // namespace

void run_programs_erased(const vf::args& a);

int main(int argc, char** argv)
{
    auto a = parse_args(argc, argv, "h_stl");
    install_recording_handlers();
    cx().nontrivial_rule = [](const std::set<std::string>& f) { return f.count("program") || f.count("nodesize"); };
    if (a.group == "programs")
    {
        all_programs<false>(a);
        run_programs_erased(a);
        smart_kind(a);
    }
    else
    {
        run_nodesize_0(a);
        run_nodesize_1(a);
        run_nodesize_2(a);
        run_nodesize_3(a);
    }
    finish();
    return 0;
}

// (kept in this translation unit for simplicity; the erased variant is a second instantiation of the same programs)
void run_programs_erased(const vf::args& a)
{
    all_programs<true>(a);
    using KS = kinds<erased_alloc>;
    program_kind<KS::list_k, true, stateless_leaves>(a);
    program_kind<KS::set_k, true, stateless_leaves>(a);
    program_kind<KS::vector_k, true, stateless_leaves>(a);
    program_kind<KS::umap_k, true, stateless_leaves>(a);
    {
        using K6 = kinds<prop_alloc_of<6>::type>;
        program_kind<K6::list_k, false, prop_leaves<6>>(a);
        program_kind<K6::vector_k, false, prop_leaves<6>>(a);
        program_kind<K6::map_k, false, prop_leaves<6>>(a);
        using K1 = kinds<prop_alloc_of<1>::type>;
        program_kind<K1::list_k, false, prop_leaves<1>>(a);
        program_kind<K1::uset_k, false, prop_leaves<1>>(a);
        using K4 = kinds<prop_alloc_of<4>::type>;
        program_kind<K4::set_k, false, prop_leaves<4>>(a);
        program_kind<K4::deque_k, false, prop_leaves<4>>(a);
        using K0 = kinds<prop_alloc_of<0>::type>;
        program_kind<K0::list_k, false, prop_leaves<0>>(a);
        program_kind<K0::vector_k, false, prop_leaves<0>>(a);
    }
    {
        using KS2 = kinds<shared_alloc>;
        program_kind<KS2::list_k, false, shared_leaves>(a);
        program_kind<KS2::vector_k, false, shared_leaves>(a);
        program_kind<KS2::umap_k, false, shared_leaves>(a);
    }
    using KC = kinds<comp_alloc>;
    program_kind<KC::list_k, false, composed_leaves>(a);
    program_kind<KC::vector_k, false, composed_leaves>(a);
    program_kind<KC::deque_k, false, composed_leaves>(a);
    program_kind<KC::string_k, false, composed_leaves>(a);
    program_kind<KC::umap_k, false, composed_leaves>(a);
}
