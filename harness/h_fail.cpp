// C03: allocation failure is always signalled, never returned as null or absorbed.
// groups: "faults"  - a seeded history is run once to count the upstream calls K, then K more times with the upstream failing at call k
//                     (std::bad_alloc and the library's out_of_memory alternate), including failures inside constructors; the history
//                     continues after the failure under the C01/C05 oracles;
//         "maxima"  - requests around max_node_size / max_array_size / max_alignment on every kind, throwing and try_ interface.
#include <foonathan/memory/iteration_allocator.hpp>
#include <foonathan/memory/memory_pool.hpp>
#include <foonathan/memory/memory_pool_collection.hpp>
#include <foonathan/memory/memory_stack.hpp>
#include <foonathan/memory/static_allocator.hpp>

#include "common/core.hpp"

using namespace vf;
using namespace foonathan::memory;

namespace
{
    struct req
    {
        bool        arr;
        std::size_t count, size, align;
    };

    // ---- adapters: how to build a kind over a probe and what a valid request looks like ----
    template <class PT, bool Blk>
    struct pool_kind
    {
        using A = memory_pool<PT, typename std::conditional<Blk, probe_block, probe_raw>::type>;
        static std::string name()
        {
            return std::string("pool<") + (std::is_same<PT, node_pool>::value ? "node" : std::is_same<PT, array_pool>::value ? "array" : "small") + ">/"
                   + (Blk ? "blk" : "grow");
        }
        static A* make(probe_handle h, rng& r)
        {
            std::size_t ns = std::is_same<PT, small_node_pool>::value ? r.range(1, 24) : r.range(8, 48);
            std::size_t bs = A::min_block_size(ns, r.range(2, 30));
            return mk(h, ns, bs, std::integral_constant<bool, Blk>{});
        }
        static A* mk(probe_handle h, std::size_t ns, std::size_t bs, std::true_type)
        {
            return new A(ns, bs, h, true);
        }
        static A* mk(probe_handle h, std::size_t ns, std::size_t bs, std::false_type)
        {
            return new A(ns, bs, probe_raw(h));
        }
        static req gen(A& a, rng& r)
        {
            using tr = allocator_traits<A>;
            req q;
            q.arr   = PT::value && r.chance(25);
            q.count = q.arr ? r.range(1, 5) : 1;
            q.size  = r.range(1, a.node_size());
            q.align = std::size_t(1) << r.below(5);
            while (q.align > tr::max_alignment(a))
                q.align >>= 1;
            if (q.arr && q.count * q.size > tr::max_array_size(a))
                q.arr = false, q.count = 1;
            return q;
        }
        static constexpr bool releases = true;
        static constexpr bool arrays   = PT::value;
        // a failed growth leaves the pool exactly as it was: the rest of the history is the one of the run without failure
        static constexpr bool same_history_after_failure = true;
    };
    template <class PT, class BD>
    struct coll_kind
    {
        using A = memory_pool_collection<PT, BD, probe_raw>;
        static std::string name()
        {
            return std::string("coll<") + (std::is_same<PT, node_pool>::value ? "node" : std::is_same<PT, array_pool>::value ? "array" : "small") + ","
                   + (std::is_same<BD, identity_buckets>::value ? "identity" : "log2") + ">/grow";
        }
        static A* make(probe_handle h, rng& r)
        {
            std::size_t m     = r.range(8, 48);
            std::size_t pools = std::is_same<BD, identity_buckets>::value ? m : 8;
            return new A(m, pools * 80 + pools * r.range(3, 6) * (m + 24), probe_raw(h));
        }
        static req gen(A& a, rng& r)
        {
            req q;
            q.arr   = PT::value && r.chance(25);
            q.count = q.arr ? r.range(1, 4) : 1;
            q.size  = r.range(1, a.max_node_size());
            q.align = std::size_t(1) << r.below(5);
            while (q.align > detail::alignment_for(q.size))
                q.align >>= 1;
            if (q.arr && q.count * q.size * 2 + 64 > allocator_traits<A>::max_array_size(a))
                q.arr = false, q.count = 1;
            return q;
        }
        static constexpr bool releases = true;
        static constexpr bool arrays   = PT::value;
        // a collection hands the rest of its current block to the requesting free list *before* it asks for the next block; if that
        // request fails the rest stays there (nothing is lost, the retry is served from it), so later growths happen at other
        // points than in the run without failure and the peak upstream need may legitimately differ
        static constexpr bool same_history_after_failure = false;
    };
    template <bool Blk>
    struct stack_kind
    {
        using A = memory_stack<typename std::conditional<Blk, probe_block, probe_raw>::type>;
        static std::string name()
        {
            return std::string("stack/") + (Blk ? "blk" : "grow");
        }
        static A* make(probe_handle h, rng& r)
        {
            return mk(h, r.range(128, 600), std::integral_constant<bool, Blk>{});
        }
        static A* mk(probe_handle h, std::size_t bs, std::true_type)
        {
            return new A(bs, h, true);
        }
        static A* mk(probe_handle h, std::size_t bs, std::false_type)
        {
            return new A(bs, probe_raw(h));
        }
        static req gen(A& a, rng& r)
        {
            req q;
            q.arr   = r.chance(20);
            q.count = q.arr ? r.range(1, 3) : 1;
            q.size  = r.range(1, std::max<std::size_t>(std::min<std::size_t>(a.next_capacity() / 4, 200), 1));
            q.align = std::size_t(1) << r.below(6);
            if (q.count * q.size + q.align + 64 > a.next_capacity())
                q = req{false, 1, 8, 8};
            return q;
        }
        static constexpr bool releases = false;
        static constexpr bool arrays   = true;
        static constexpr bool same_history_after_failure = true;
    };

    long injected = 0, fired = 0, survived = 0;

    // one run of the scenario; fail_at < 0: no injection. returns number of upstream attempts
    std::size_t g_budget = std::size_t(-1); // peak upstream bytes of the baseline run: the failure runs must get by with it

    // the out_of_memory handler may, as documented, throw an exception of its own (derived from std::bad_alloc) instead of returning;
    // it must be consulted again at the next failure all the same
    struct handler_refusal : std::bad_alloc
    {
    };
    bool g_oom_handler_throws = false;
    struct throwing_handler_scope
    {
        explicit throwing_handler_scope(bool on)
        {
            g_oom_handler_throws = on;
        }
        ~throwing_handler_scope()
        {
            g_oom_handler_throws = false;
        }
    };

    template <class K>
    long scenario(std::uint64_t seed, long fail_at, int fail_kind, int ops, const std::string& kind)
    {
        throwing_handler_scope handler_mode(fail_at >= 0 && fail_kind == 1 && (fail_at / 2) % 2 == 0);
        using A   = typename K::A;
        using tr  = allocator_traits<A>;
        using ctr = composable_allocator_traits<A>;
        rng  r(seed);
        auto h       = make_probe("raw", true);
        h->fail_at   = fail_at;
        h->fail_kind = fail_kind;
        if (fail_at >= 0 && K::same_history_after_failure)
            h->budget = g_budget; // the same history needs no more upstream memory than without the failure
        shadow             sh;
        false_report_guard frg;
        std::unique_ptr<A> obj;
        auto               rs = r.s;
        op("scenario fail_at=%ld (%s)", fail_at, fail_kind ? "out_of_memory" : "std::bad_alloc");
        try
        {
            obj.reset(K::make(h, r));
        }
        catch (std::bad_alloc&)
        {
            // failure inside the constructor: nothing may be left behind
            ++fired;
            h->check();
            if (h->fired == 0)
                viol("C03", "C03/" + kind + "/bad_alloc-without-cause", "constructor threw std::bad_alloc although the upstream did not fail");
            if (!h->balanced())
                viol("C05", "C05/" + kind + "/ctor-failure-leaks", "the constructor failed and left %zu upstream blocks outstanding", h->live.size());
            count("ctor_failures");
            flag("ctor-failure");
            h->fail_at = -1;
            r.s        = rs;
            obj.reset(K::make(h, r));
        }
        h->check();
        for (int i = 0; i < ops; ++i)
        {
            auto x = r.below(100);
            if (x < 55)
            {
                auto q = K::gen(*obj, r);
                op("%s %zux%zu/%zu", q.arr ? "array" : "node", q.count, q.size, q.align);
                void* p      = nullptr;
                auto  fired0 = h->fired;
                auto  rb0    = h->refused_by_budget;
                auto  oom0   = hl().oom;
                auto  mn0 = tr::max_node_size(*obj), ma0 = tr::max_array_size(*obj);
                try
                {
                    p = q.arr ? tr::allocate_array(*obj, q.count, q.size, q.align) : tr::allocate_node(*obj, q.size, q.align);
                }
                catch (bad_array_size&)
                {
                    h->check();
                    count("bad_array_size_thrown"); // documented for arrays that do not fit a fresh block
                    continue;
                }
                catch (std::bad_alloc& e)
                {
                    h->check();
                    if (h->fired == fired0 && h->refused_by_budget != rb0)
                        viol("C03", "C03/" + kind + "/needs-more-upstream-after-failure",
                             "after an upstream failure the same history asks the upstream for more memory than it needs without the failure");
                    if (h->fired == fired0)
                        viol("C03", "C03/" + kind + "/bad_alloc-without-cause", "%s thrown although the upstream did not fail and the request was valid",
                             e.what());
                    if (dynamic_cast<out_of_memory*>(&e) && hl().oom == oom0)
                        viol("C03", "C03/" + kind + "/oom-handler-not-called", "out_of_memory propagated without its handler having been called");
                    ++fired;
                    flag("upstream-failure");
                    // from here on the C01/C05/C18 oracles also decide C03's "a failed request leaves every earlier allocation valid and
                    // the allocator able to serve later valid requests"
                    cx().also     = "C03";
                    cx().also_for = "C01 C05 C18";
                    // every earlier allocation is still valid
                    sh.sweep();
                    h->fail_at = -1;
                    // a request that failed consumed nothing: the reported maxima (next_capacity) are what they were
                    if (tr::max_node_size(*obj) != mn0 || tr::max_array_size(*obj) != ma0)
                        viol("C18", "C18/" + kind + "/failed-request-changed-maxima",
                             "a request that failed because the upstream failed changed max_node_size %zu -> %zu / max_array_size %zu -> %zu", mn0,
                             tr::max_node_size(*obj), ma0, tr::max_array_size(*obj));
                    // and the same request is served now
                    try
                    {
                        p = q.arr ? tr::allocate_array(*obj, q.count, q.size, q.align) : tr::allocate_node(*obj, q.size, q.align);
                    }
                    catch (bad_array_size&)
                    {
                        continue;
                    }
                    catch (std::bad_alloc&)
                    {
                        viol("C03", "C03/" + kind + "/unusable-after-failure",
                             "after an upstream failure the same valid request fails although the upstream works again%s",
                             h->refused_by_budget ? " (it asked the upstream for more memory than the same history needs without the failure)" : "");
                    }
                    ++survived;
                }
                h->check();
                if (h->fired != fired0 && p && h->fail_at >= 0)
                    viol("C03", "C03/" + kind + "/failure-absorbed", "the upstream failed during the request but the request neither threw nor asked again");
                sh.add([&](const char* a, std::size_t n) { return h->owns(a, n); }, p, q.arr, q.count, q.size, q.align);
                count("alloc");
            }
            else if (x < 70)
            {
                auto q = K::gen(*obj, r);
                op("try_%s %zux%zu/%zu", q.arr ? "array" : "node", q.count, q.size, q.align);
                auto  att0 = h->attempts;
                void* p    = q.arr ? ctr::try_allocate_array(*obj, q.count, q.size, q.align) : ctr::try_allocate_node(*obj, q.size, q.align);
                h->check();
                if (h->attempts != att0)
                    viol("C03", "C03/" + kind + "/try-grew", "a try_ function asked the upstream for memory");
                if (p)
                    sh.add([&](const char* a, std::size_t n) { return h->owns(a, n); }, p, q.arr, q.count, q.size, q.align);
                count("try_alloc");
            }
            else if (!sh.live.empty() && K::releases)
            {
                auto it = sh.pick(r);
                auto p  = it->first;
                auto e  = sh.retire(p);
                op("free #%u", e.id);
                if (e.arr)
                    tr::deallocate_array(*obj, p, e.count, e.size, e.align);
                else
                    tr::deallocate_node(*obj, p, e.size, e.align);
                h->check();
            }
            frg.check("operation");
        }
        sh.sweep();
        long attempts = h->attempts;
        if (fail_at < 0)
            g_budget = h->bytes_peak;
        hl().leaks.clear();
        obj.reset();
        h->check();
        if (!h->balanced())
            viol("C05", "C05/" + kind + "/not-balanced-at-destruction", "upstream blocks outstanding after destruction");
        return attempts;
    }

    template <class K>
    void faults(const args& a)
    {
        auto kind = K::name();
        if (a.kind != "all" && a.kind != kind)
            return;
        long maxk = a.num("maxk", 1000000);
        for (long c = a.from; c < a.to; ++c)
            run_case(kind, c, [&] {
                auto seed = case_rng(a.seed, a.group, kind, c).next();
                g_budget  = std::size_t(-1);
                long K0   = scenario<K>(seed, -1, 0, a.ops, kind);
                op("baseline made %ld upstream calls", K0);
                for (long k = 0; k < K0 && k < maxk; ++k)
                {
                    scenario<K>(seed, k, int(k % 2), a.ops, kind);
                    ++injected;
                }
                // beyond maxk: a seeded sample
                if (K0 > maxk)
                {
                    rng r(seed ^ 0x5555);
                    for (int i = 0; i < 6; ++i)
                    {
                        scenario<K>(seed, long(maxk + r.below(std::size_t(K0 - maxk))), i % 2, a.ops, kind);
                        ++injected;
                    }
                }
                flag("faults");
            });
    }

    // ---- maxima ----
    void count_class(const std::string& c)
    {
        vf::count(("outcome_" + c).c_str());
    }

    template <class Ex, class F>
    const char* classify(F&& f, void*& result)
    {
        result = nullptr;
        try
        {
            result = f();
            return result ? "ok" : "null";
        }
        catch (bad_node_size&)
        {
            return "bad_node_size";
        }
        catch (bad_array_size&)
        {
            return "bad_array_size";
        }
        catch (bad_alignment&)
        {
            return "bad_alignment";
        }
        catch (bad_allocation_size&)
        {
            return "bad_allocation_size";
        }
        catch (out_of_fixed_memory&)
        {
            return "out_of_fixed_memory";
        }
        catch (out_of_memory&)
        {
            return "out_of_memory";
        }
        catch (std::bad_alloc&)
        {
            return "std::bad_alloc";
        }
        catch (case_abort&)
        {
            throw;
        }
        catch (...)
        {
            return "other";
        }
    }

    template <class K>
    void maxima(const args& a)
    {
        using A   = typename K::A;
        using tr  = allocator_traits<A>;
        using ctr = composable_allocator_traits<A>;
        auto kind = K::name();
        if (a.kind != "all" && a.kind != kind)
            return;
        for (long c = a.from; c < a.to; ++c)
            run_case(kind, c, [&] {
                auto               r = case_rng(a.seed, a.group, kind, c);
                auto               h = make_probe("raw", true);
                shadow             sh;
                false_report_guard frg;
                // when C19 is decided: the size the alignment rule and the bucket are computed from shows in what an accepted request returns
                also_scope arithmetic(cx().prop == "C19" ? "C19" : "", "C01 C02 C18");
                std::unique_ptr<A> obj(K::make(h, r));
                // a valid prefix
                for (int i = 0, n = int(r.below(30)); i < n; ++i)
                {
                    auto  q = K::gen(*obj, r);
                    void* p;
                    try
                    {
                        p = q.arr ? tr::allocate_array(*obj, q.count, q.size, q.align) : tr::allocate_node(*obj, q.size, q.align);
                    }
                    catch (bad_array_size&)
                    {
                        continue;
                    }
                    sh.add([&](const char* x, std::size_t n2) { return h->owns(x, n2); }, p, q.arr, q.count, q.size, q.align);
                }
                h->check();
                const std::size_t SM = std::size_t(-1);
                for (int round = 0; round < 24; ++round)
                {
                    auto mn = tr::max_node_size(*obj), ma = tr::max_array_size(*obj), mal = tr::max_alignment(*obj);
                    auto pick = [&](std::size_t m) -> std::size_t {
                        switch (r.below(7))
                        {
                        case 0:
                            return m > 1 ? m - 1 : 1;
                        case 1:
                            return m ? m : 1;
                        case 2:
                            return m == SM ? SM : m + 1;
                        case 3:
                            return m > SM / 2 ? SM : 2 * m + 1;
                        case 4:
                            return SM / 2;
                        case 5:
                            return SM;
                        default:
                            return m == SM ? SM : m + r.range(1, 64);
                        }
                    };
                    bool        arr   = K::arrays && r.chance(40); // small-node pools document that they do not support arrays
                    bool        try_  = r.chance(40);
                    std::size_t size  = r.chance(60) ? pick(mn) : r.range(1, std::max<std::size_t>(std::min<std::size_t>(mn, 64), 1));
                    std::size_t count = arr ? (r.chance(50) ? pick(size ? ma / size : ma) : r.range(1, 4)) : 1;
                    if (count == 0)
                        count = 1;
                    // the byte size count * size must be representable: the interface multiplies the two (contract edge, see DESIGN.md)
                    if (count > SM / std::max<std::size_t>(size, 1))
                        count = SM / std::max<std::size_t>(size, 1);
                    // (1..32: for collections the limit depends on the element size, alignment_for(size), not on the total)
                    std::size_t align = r.chance(30) ? (mal > SM / 2 ? std::size_t(1) << 62 : mal * 2) : std::size_t(1) << r.below(r.chance(50) ? 4 : 6);
                    if (mal >= 4096 && r.chance(40))
                        align = std::size_t(16) << r.below(9); // 16..4096 on stack-like allocators: the padding must be part of the size check
                    if (align == 0)
                        align = 1;
                    // keep what could legitimately succeed small enough to be materialised by the harness
                    bool size_ok  = size <= mn && (!arr || (count <= ma / std::max<std::size_t>(size, 1) && count * size <= ma));
                    bool align_ok = align <= mal;
                    op("%s%s %zux%zu/%zu (max node %zu, max array %zu, max align %zu)", try_ ? "try_" : "", arr ? "array" : "node", count, size, align, mn,
                       ma, mal);
                    auto  bad0 = hl().bad_size, oom0 = hl().oom;
                    auto  att0 = h->attempts;
                    auto  own0 = h->own_bad_alloc;
                    void* p    = nullptr;
                    auto  cls  = classify<void>(
                        [&]() -> void* {
                            if (try_)
                                return arr ? ctr::try_allocate_array(*obj, count, size, align) : ctr::try_allocate_node(*obj, size, align);
                            return arr ? tr::allocate_array(*obj, count, size, align) : tr::allocate_node(*obj, size, align);
                        },
                        p);
                    h->check();
                    std::string cl = cls;
                    count_class(cl);
                    if (try_)
                    {
                        if (cl != "ok" && cl != "null")
                            viol("C03", "C03/" + kind + "/try-threw", "a try_ function threw %s", cls);
                        if (h->attempts != att0)
                            viol("C03", "C03/" + kind + "/try-grew", "a try_ function asked the upstream for memory");
                        if (cl == "ok" && !(size_ok && align_ok))
                            viol("C03", "C03/" + kind + "/above-maximum-succeeded", "try_ request above a reported maximum succeeded");
                    }
                    else
                    {
                        if (cl == "null")
                            viol("C03", "C03/" + kind + "/returned-null", "a throwing allocation function returned null");
                        if (cl == "other")
                            viol("C03", "C03/" + kind + "/foreign-exception", "an exception not derived from std::bad_alloc escaped");
                        if (cl == "ok" && !(size_ok && align_ok))
                            viol("C18", "C18/" + kind + "/above-maximum-succeeded",
                                 "a request above a reported maximum succeeded (%zux%zu/%zu; max node %zu, max array %zu, max alignment %zu)", count, size,
                                 align, mn, ma, mal);
                        bool bad_family = cl.rfind("bad_", 0) == 0;
                        bool oom_family = cl.rfind("out_of", 0) == 0;
                        if (bad_family && hl().bad_size == bad0)
                            viol("C03", "C03/" + kind + "/bad-size-handler-not-called", "%s thrown without calling the bad_allocation_size handler", cls);
                        if (oom_family && hl().oom == oom0)
                            viol("C03", "C03/" + kind + "/oom-handler-not-called", "%s thrown without calling the out_of_memory handler", cls);
                        // (unless the instrumented upstream itself could not serve - blocks double with every growth and it stops at 2 GiB:
                        //  its std::bad_alloc is passed through, rightly)
                        if (cl == "std::bad_alloc" && h->own_bad_alloc == own0)
                            viol("C03", "C03/" + kind + "/plain-bad_alloc", "a library failure surfaced as plain std::bad_alloc, outside both families");
                        if (cl == "std::bad_alloc")
                            vf::count("upstream_itself_exhausted");
                    }
                    if (cl == "ok")
                        sh.add([&](const char* x, std::size_t n2) { return h->owns(x, n2); }, p, arr, count, size, align);
                    else
                        flag("refused");
                    sh.sweep(); // a failed request leaves earlier allocations valid
                    frg.check("maxima request");
                }
                // and the allocator still serves valid requests
                {
                    auto  q = K::gen(*obj, r);
                    q.arr   = false;
                    q.count = 1;
                    void* p = tr::allocate_node(*obj, q.size, q.align);
                    sh.add([&](const char* x, std::size_t n2) { return h->owns(x, n2); }, p, false, 1, q.size, q.align);
                }
                sh.sweep();
                obj.reset();
                h->check();
                if (!h->balanced())
                    viol("C05", "C05/" + kind + "/not-balanced-at-destruction", "upstream blocks outstanding after destruction");
            });
    }
    template <class K>
    void both(const args& a)
    {
        if (a.group == "faults")
            faults<K>(a);
        else
            maxima<K>(a);
    }
} // namespace

int main(int argc, char** argv)
{
    auto a = parse_args(argc, argv, "h_fail");
    install_recording_handlers();
    out_of_memory::set_handler([](const allocator_info&, std::size_t) {
        ++hl().oom;
        if (g_oom_handler_throws)
        {
            count("oom_handler_threw");
            throw handler_refusal();
        }
    });
    cx().nontrivial_rule = [](const std::set<std::string>& f) { return f.count("faults") || f.count("refused"); };
    both<pool_kind<node_pool, false>>(a);
    both<pool_kind<array_pool, false>>(a);
    both<pool_kind<small_node_pool, false>>(a);
    both<pool_kind<node_pool, true>>(a);
    both<pool_kind<small_node_pool, true>>(a);
    both<coll_kind<node_pool, log2_buckets>>(a);
    both<coll_kind<array_pool, identity_buckets>>(a);
    both<coll_kind<small_node_pool, log2_buckets>>(a);
    both<coll_kind<array_pool, log2_buckets>>(a);
    both<stack_kind<false>>(a);
    both<stack_kind<true>>(a);
    count("failures_injected_runs", injected);
    count("failures_fired", fired);
    count("failures_survived", survived);
    finish();
    return 0;
}
