#include "common/coll_engine.hpp"
void run_coll_array_log2(const vf::args& a)
{
    vf_coll::run_sources<foonathan::memory::array_pool, foonathan::memory::log2_buckets>(a);
}
