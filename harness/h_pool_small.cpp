#include "common/pool_engine.hpp"
void run_pool_small(const vf::args& a)
{
    vf_pool::run_sources<foonathan::memory::small_node_pool>(a);
}
