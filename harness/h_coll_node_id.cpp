#include "common/coll_engine.hpp"
void run_coll_node_id(const vf::args& a)
{
    vf_coll::run_sources<foonathan::memory::node_pool, foonathan::memory::identity_buckets>(a);
}
