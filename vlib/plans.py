"""Per-property plans: which harness processes decide a property in which tier."""
from .run import Job

POOL_TYPES = ["node", "array", "small"]
SOURCES = ["grow", "fixed", "blk", "static", "virtual"]
POOL_KINDS = ["pool<%s>/%s" % (t, s) for t in POOL_TYPES for s in SOURCES]

COLL_KINDS = ["coll<%s,%s>/%s" % (t, b, s) for b in ("identity", "log2") for t in POOL_TYPES for s in SOURCES]

STACK_KINDS = ["stack/%s" % s for s in SOURCES]
ITER_KINDS = ["iter<%d>/%s" % (n, s) for n in range(1, 6) for s in ("grow", "blk", "static", "virtual")]
LOW_KINDS = ["heap_allocator", "malloc_allocator", "new_allocator", "virtual_memory_allocator", "aligned<heap>"]
TEMP_KINDS = ["temporary/explicit-stack", "temporary/thread-stack"]

ASSUME_COMMON = [
    "the instrumented upstream allocators (probes) and the shadow heap are correct",
    "histories are contract-respecting as listed in DESIGN.md section 5",
    "verdict covers the executions produced on this Linux/x86-64/libstdc++ image only",
]


def chunks(n, size):
    return [(a, min(n, a + size)) for a in range(0, n, size)]


def hist_jobs(harness, kinds, cfgs, groups, ncases, ops, chunk, flavour="asan", cpu=40):
    jobs = []
    for cfg in cfgs:
        for g in groups:
            for k in kinds:
                for c in chunks(ncases, chunk):
                    jobs.append(Job(harness, cfg, flavour, g, k, c, ops=ops, cpu=cpu))
    return jobs


def pool_jobs(cfgs, groups, ncases, ops, chunk, flavour="asan", kinds=POOL_KINDS):
    return hist_jobs("h_pool", kinds, cfgs, groups, ncases, ops, chunk, flavour)


def coll_jobs(cfgs, groups, ncases, ops, chunk, flavour="asan", kinds=COLL_KINDS):
    return hist_jobs("h_coll", kinds, cfgs, groups, ncases, ops, chunk, flavour)


def stack_jobs(cfgs, groups, ncases, ops, chunk, flavour="asan", kinds=STACK_KINDS):
    return hist_jobs("h_stack", kinds, cfgs, groups, ncases, ops, chunk, flavour)


def low_jobs(cfgs, ncases, ops, chunk, flavour="asan", kinds=LOW_KINDS + TEMP_KINDS):
    # temporary/thread-stack: the thread's stack persists for the life of the process, keep processes short
    jobs = []
    for k in kinds:
        ck = min(chunk, 25) if k == "temporary/thread-stack" else chunk
        jobs += hist_jobs("h_low", [k], cfgs, ["walk"], ncases, ops, ck, flavour)
    return jobs


RULE_HISTORY = ("case = (harness, configuration, allocator kind x block source, generator mode, index); every case is a seeded history of "
                "%s; distinct = FNV-1a over kind, configuration and the complete operation sequence; non-trivial = %s")

Q_CFGS = ["rwd", "dbg"]
T_CFGS = ["rel", "rwd", "dbg", "dbg16", "chk"]


def _scale(tier, q, t):
    return q if tier == "quick" else t


def plan_c01(tier, seed):
    q = tier == "quick"
    cfgs = ["rel", "rwd", "dbg"] if q else T_CFGS
    n = _scale(tier, 60, 1200)
    ops = _scale(tier, 250, 400)
    ck = _scale(tier, 60, 150)
    jobs = pool_jobs(cfgs, ["walk", "phased", "corner"], n, ops, ck) + coll_jobs(cfgs, ["walk", "phased", "corner"], n // 2, ops, ck) \
        + stack_jobs(cfgs, ["walk", "phased"], n, ops, ck, kinds=STACK_KINDS + ITER_KINDS + ["static_allocator"]) \
        + low_jobs(cfgs, n, ops, ck) + fail_jobs(["rwd", "dbg"], tier, faults=False)
    if not q:
        jobs += pool_jobs(["rwd"], ["walk", "corner"], 300, ops, 100, flavour="casan") \
            + stack_jobs(["rwd"], ["walk"], 300, ops, 100, flavour="casan", kinds=STACK_KINDS + ITER_KINDS)
    return dict(jobs=jobs, level="exploration",
                rule=RULE_HISTORY % ("node/array allocations, releases in random order, try_ calls, unwinds, iteration switches, moves and swaps",
                                     "at least two allocations were live at the same time and memory was released, unwound or an iteration wrapped around"),
                assumptions=ASSUME_COMMON + ["an overwrite of live memory that is undone before the next read-back of the pattern is not seen"],
                minima={"cases": 500, "distinct_nontrivial": 300, "alloc_node": 10000, "sweeps": 1000, "unwinds": 100, "next_iteration": 500})


def plan_c02(tier, seed):
    q = tier == "quick"
    cfgs = ["rwd", "dbg", "dbg16"] if q else T_CFGS
    n = _scale(tier, 50, 1000)
    ops = _scale(tier, 250, 400)
    ck = _scale(tier, 50, 150)
    jobs = pool_jobs(cfgs, ["walk", "phased"], n, ops, ck) + coll_jobs(cfgs, ["walk", "phased"], n // 2, ops, ck) \
        + stack_jobs(cfgs, ["walk", "phased"], n, ops, ck, kinds=STACK_KINDS + ITER_KINDS + ["static_allocator"]) \
        + low_jobs(cfgs, n, ops, ck) + fail_jobs(["rwd", "dbg"], tier, faults=False)
    if not q:
        jobs += stack_jobs(["rwd", "dbg"], ["walk"], 300, ops, 100, flavour="casan", kinds=STACK_KINDS + ITER_KINDS) \
            + low_jobs(["rwd", "dbg"], 200, ops, 100, flavour="casan", kinds=LOW_KINDS)
    return dict(jobs=jobs, level="exploration",
                rule=RULE_HISTORY % ("requests with seeded sizes, counts and power-of-two alignments (up to 512 on stacks, iteration, static and "
                                     "temporary allocators, page size on virtual memory) from upstream blocks that are aligned exactly as requested and "
                                     "not more",
                                     "several allocations live at once and the history contains an over-aligned request, a block growth or a release"),
                assumptions=ASSUME_COMMON, minima={"cases": 500, "distinct_nontrivial": 300, "alloc_node": 10000, "alloc": 10000, "grow": 200})


FAIL_KINDS = ["pool<node>/grow", "pool<array>/grow", "pool<small>/grow", "pool<node>/blk", "pool<small>/blk", "coll<node,log2>/grow",
              "coll<array,identity>/grow", "coll<small,log2>/grow", "coll<array,log2>/grow", "stack/grow", "stack/blk"]


def fail_jobs(cfgs, tier, faults=True, maxima=True):
    q = tier == "quick"
    jobs = []
    nf = _scale(tier, 16, 80)
    nm = _scale(tier, 100, 1500)
    for cfg in cfgs:
        for k in FAIL_KINDS:
            extra = ["--maxk", "12"] if q else []
            if faults:
                jobs += [Job("h_fail", cfg, "asan", "faults", k, c, ops=_scale(tier, 120, 250), extra=extra, cpu=600) for c in chunks(nf, 4 if q else 6)]
            if maxima:
                jobs += [Job("h_fail", cfg, "asan", "maxima", k, c, cpu=300) for c in chunks(nm, 50 if q else 150)]
    return jobs


def plan_c03(tier, seed):
    q = tier == "quick"
    cfgs = Q_CFGS if q else ["rel", "rwd", "dbg", "chk"]
    jobs = []
    nf = _scale(tier, 16, 80)
    nm = _scale(tier, 100, 1500)
    for cfg in cfgs:
        for k in FAIL_KINDS:
            # quick: every k <= 12 and a seeded sample above; thorough: every k
            extra = ["--maxk", "12"] if q else []
            jobs += [Job("h_fail", cfg, "asan", "faults", k, c, ops=_scale(tier, 120, 250), extra=extra, cpu=600) for c in chunks(nf, 4 if q else 6)]
            jobs += [Job("h_fail", cfg, "asan", "maxima", k, c, cpu=300) for c in chunks(nm, 50 if q else 150)]
    # exhaustion of fixed sources (fixed_block_allocator, static storage, virtual_block_allocator, iteration regions, static_allocator)
    n = _scale(tier, 40, 600)
    ck = _scale(tier, 40, 100)
    fixed = [k for k in POOL_KINDS if k.endswith(("fixed", "static", "virtual"))]
    cfixed = [k for k in COLL_KINDS if k.endswith(("fixed", "static", "virtual"))]
    jobs += pool_jobs(cfgs, ["walk", "phased"], n, 300, ck, kinds=fixed) + coll_jobs(cfgs, ["corner", "phased"], n // 2, 300, ck, kinds=cfixed) \
        + stack_jobs(cfgs, ["walk"], n, 300, ck, kinds=["stack/fixed", "stack/static", "stack/virtual", "static_allocator"] + ITER_KINDS)
    # compositions: leaves below a fallback_allocator's Default position may only be reached through try_ members, which return
    # null when the leaf is full (a throw inside them terminates the process)
    for cfg in cfgs[:2] if q else cfgs:
        for k in ROUTING_KINDS:
            jobs += [Job("h_compose", cfg, "asan", "routing", k, c, ops=_scale(tier, 200, 400), cpu=_scale(tier, 40, 120)) for c in chunks(_scale(tier, 20, 400), 20 if q else 100)]
    # refusals elsewhere: joint memory that cannot hold a request (out_of_fixed_memory, nothing written outside the block) and a
    # wrapped allocator that throws behind a mutex-guarded storage (the storage must be usable afterwards)
    for cfg in cfgs[:2] if q else cfgs:
        for k in JOINT_KINDS:
            jobs.append(Job("h_joint", cfg, "asan", "layout", k, (0, _scale(tier, 30, 300)), ops=_scale(tier, 40, 60), cpu=300))
    for k in ("direct_storage+monitor-mutex", "reference_storage+monitor-mutex", "any_reference+monitor-mutex"):
        jobs += [Job("h_thread", "rwd", "plain", "mutex", k, c, ops=_scale(tier, 2000, 4000), extra=["--maxthreads", "4"], cpu=900) for c in chunks(_scale(tier, 3, 30), 3)]
    return dict(jobs=jobs, level="fault_enumeration",
                rule="(faults) a seeded history per kind (three pools, four collections, two stacks over probe upstreams) is run once to count its "
                     "upstream calls K, then once more for each k < K (quick: k <= 12 plus six seeded k above) with the upstream throwing at call k "
                     "(std::bad_alloc and the library's out_of_memory alternate), constructors included; after the failure the same request is "
                     "re-issued and the history continues under the shadow-heap and upstream-balance oracles. (maxima) 24 requests per case with "
                     "size / count / alignment drawn from {max-1, max, max+1, 2*max+1, SIZE_MAX/2, SIZE_MAX, max+1..64} relative to the reported "
                     "maxima, throwing and try_ interface: outcome classified by exception type, handler counters compared. (exhaustion) histories on "
                     "fixed, static and virtual block sources, iteration regions and static_allocator until out_of_fixed_memory. (routing) fallback_allocator / "
                     "segregator / tracked / aligned / reference compositions over budgeted composable leaves are filled until they spill: a leaf "
                     "below a Default position may only be reached through try_ members (its throwing members report), and a throw inside a "
                     "try_ member terminates the process. non-trivial = a "
                     "faults case, a maxima case with at least one refused request, or a history that exhausted its source or grew; distinct = "
                     "FNV-1a of kind, configuration and operation sequence",
                assumptions=ASSUME_COMMON + ["the byte size count*size of a request is representable in size_t (the interface multiplies the two)"],
                minima={"cases": 500, "distinct_nontrivial": 300, "failures_fired": 600, "failures_survived": 200, "ctor_failures": 50,
                        "outcome_bad_node_size": 500, "outcome_bad_alignment": 500, "outcome_null": 500, "out_of_memory_thrown": 500})


def plan_c04(tier, seed):
    q = tier == "quick"
    cfgs = ["rwd", "dbg"] if q else ["rel", "rwd", "dbg", "dbg16", "chk"]
    n = 100 if q else 1500
    ops = 250 if q else 400
    jobs = pool_jobs(cfgs, ["walk", "phased", "corner"], n, ops, n if q else 150) \
        + coll_jobs(cfgs, ["walk", "phased", "corner"], n // 2, ops, n if q else 150)
    return dict(jobs=jobs, level="exploration",
                rule="case = (config, pool kind x block source, generator mode walk|phased|corner, index); operations drawn from a "
                     "seeded PRNG; non-trivial = the history releases memory and contains an array whose byte size is not a multiple "
                     "of the node size, or an allocate/release cycle test, or a drain; distinct = FNV-1a of kind+config+operation sequence",
                assumptions=ASSUME_COMMON, minima={"cases": 100, "distinct_nontrivial": 50, "release_array": 100, "cycles": 20, "drains": 20})


ARENA_KINDS = ["arena<cached>", "arena<uncached>", "static_block_allocator", "virtual_block_allocator", "fixed_block_allocator",
               "growing_block_allocator"]


def arena_jobs(cfgs, tier):
    n = _scale(tier, 60, 1500)
    return hist_jobs("h_arena", ARENA_KINDS, cfgs, ["walk"], n, _scale(tier, 200, 400), _scale(tier, 60, 250))


def plan_c05(tier, seed):
    q = tier == "quick"
    cfgs = Q_CFGS if q else T_CFGS
    n = _scale(tier, 60, 1000)
    ops = _scale(tier, 250, 400)
    ck = _scale(tier, 60, 150)
    jobs = pool_jobs(cfgs, ["walk", "phased"], n, ops, ck) + coll_jobs(cfgs, ["walk", "phased"], n // 2, ops, ck) \
        + stack_jobs(cfgs, ["walk", "phased"], n * 2, ops, ck, kinds=STACK_KINDS) \
        + stack_jobs(cfgs, ["walk"], n, ops, ck, kinds=ITER_KINDS) \
        + low_jobs(cfgs, n, ops, ck, kinds=["heap_allocator", "malloc_allocator", "aligned<heap>", "temporary/explicit-stack"]) \
        + arena_jobs(cfgs, tier)
    # the temporary block source under threads: stacks lost from the list are never freed (scheduler-controlled interleavings, exit children)
    jobs += [Job("h_thread", "rwd", "plain", "sched", "scheduled", c, extra=["--maxthreads", "3"], cpu=900) for c in chunks(_scale(tier, 1000, 20000), 250 if q else 5000)]
    for k in EXIT_KINDS:
        jobs += [Job("h_thread", "rwd", "plain", "exit", k, c, cpu=300) for c in chunks(_scale(tier, 6, 30), 6)]
    return dict(jobs=jobs, level="exploration",
                rule=RULE_HISTORY % ("allocations, releases, unwinds, shrink_to_fit, moves, move assignments, swaps and destruction at seeded points over "
                                     "instrumented block sources that check every release (known block, once, same address/size/alignment, LIFO)",
                                     "the history made the arena acquire more than one block, reuse a cached block, or moved the allocator"),
                assumptions=ASSUME_COMMON + ["upstream failure at every k is decided by the C03 check (h_fail), which applies the same probe oracle"],
                minima={"cases": 500, "distinct_nontrivial": 200, "upstream_acquire": 2000, "upstream_release": 2000, "cache_reuse": 100,
                        "shrinks": 100, "destructions": 500})


def plan_c06(tier, seed):
    q = tier == "quick"
    cfgs = ["rwd", "dbg", "dbg16"] if q else T_CFGS
    n = _scale(tier, 150, 4000)
    ops = _scale(tier, 300, 500)
    ck = _scale(tier, 75, 200)
    jobs = stack_jobs(cfgs, ["walk", "phased"], n, ops, ck, kinds=STACK_KINDS) \
        + low_jobs(cfgs, n // 2, ops, ck, kinds=TEMP_KINDS)
    return dict(jobs=jobs, level="exploration",
                rule=RULE_HISTORY % ("allocate / try_allocate / top / unwind to a seeded still-valid marker / shrink_to_fit / move / swap on memory_stack, "
                                     "and nested temporary_allocator scopes",
                                     "the history unwound to a marker and either replayed the requests that followed the marker (address equality) or "
                                     "unwound across a block boundary"),
                assumptions=ASSUME_COMMON + ["replay equality is judged only while no shrink_to_fit happened since the marker was taken"],
                minima={"cases": 300, "distinct_nontrivial": 200, "unwinds": 2000, "replayed_requests": 2000, "marker_comparisons": 5000})


def plan_c07(tier, seed):
    q = tier == "quick"
    cfgs = ["rel", "rwd", "dbg"] if q else T_CFGS
    n = _scale(tier, 100, 3000)
    ops = _scale(tier, 300, 500)
    ck = _scale(tier, 100, 250)
    jobs = stack_jobs(cfgs, ["walk"], n, ops, ck, kinds=ITER_KINDS)
    return dict(jobs=jobs, level="exploration",
                rule=RULE_HISTORY % ("allocate / try_allocate / next_iteration / move on iteration_allocator<1..5> with block sizes N*k, N*k+r, primes, "
                                     "1025 and random, fill on and off",
                                     "next_iteration() wrapped around at least once (an old region was reused) while several allocations were live"),
                assumptions=ASSUME_COMMON, minima={"cases": 300, "distinct_nontrivial": 200, "next_iteration": 5000, "alloc": 5000})


ROUTING_KINDS = ["fallback<leaf,leaf>", "fallback<fallback<leaf,leaf>,leaf>", "fallback<leaf,fallback<leaf,leaf>>",
                 "fallback<fallback<leaf,leaf>,fallback<leaf,leaf>>", "aligned<fallback<leaf,leaf>>", "tracked<fallback<fallback<leaf,leaf>,leaf>>",
                 "fallback<pool<node>/fixed,leaf>", "fallback<pool<array>/fixed,leaf>", "fallback<stack/fixed,leaf>",
                 "fallback<coll<node,log2>/fixed,leaf>", "fallback<tracked<leaf>,leaf>", "segregator<threshold(32) leaf,leaf>",
                 "fallback<leaf-node-functions-only,leaf>", "fallback<reference<leaf>,reference<leaf>>", "fallback<any_reference<leaf>,reference<leaf>>"]
SIBLING_KINDS = ["pool<node>", "pool<array>", "pool<small>", "coll<node,log2>", "coll<array,identity>", "stack", "iteration<2>", "mixed"]
FORWARD_KINDS = ["adapter<leaf>", "adapter<leaf-min>", "reference<leaf>", "any_reference<leaf>", "any_reference<leaf-min>", "thread_safe<leaf>",
                 "aligned<leaf>", "aligned<leaf-min>", "tracked<leaf>", "tracked<leaf-min>", "segregator<threshold(64) leaf,leaf>",
                 "segregator<64,256,leaf>", "segregator<by-element-size(64) leaf,leaf>", "memory_resource<leaf>", "memory_resource<leaf-varying-max>", "tracked<aligned<leaf>>",
                 "aligned<tracked<leaf>>", "thread_safe<aligned<leaf-min>>", "segregator<threshold(256) tracked<leaf>,aligned<leaf>>",
                 "tracked<segregator<threshold(64) leaf,leaf>>", "reference<tracked<aligned<leaf>>>",
                 "reference<tracked<stateless-leaf>>",
                 "memory_resource<segregator<threshold(64) leaf,leaf>>", "std_allocator+deleters"]


def plan_c08(tier, seed):
    q = tier == "quick"
    cfgs = Q_CFGS if q else T_CFGS
    n = _scale(tier, 60, 1500)
    ck = _scale(tier, 60, 150)
    jobs = []
    for cfg in cfgs:
        for k in SIBLING_KINDS:
            jobs += [Job("h_compose", cfg, "asan", "siblings", k, c, ops=_scale(tier, 200, 400), cpu=_scale(tier, 40, 120)) for c in chunks(n, ck)]
        for k in ROUTING_KINDS:
            jobs += [Job("h_compose", cfg, "asan", "routing", k, c, ops=_scale(tier, 200, 400), cpu=_scale(tier, 40, 120)) for c in chunks(n, ck)]
    # try_deallocate of own memory through the history engines (refused-own clause)
    jobs += pool_jobs(cfgs, ["walk"], n // 2, 250, ck) + coll_jobs(cfgs, ["walk"], n // 4, 250, ck) \
        + stack_jobs(cfgs, ["walk", "phased"], n // 2, 250, ck, kinds=STACK_KINDS)
    return dict(jobs=jobs, level="exploration",
                rule="(siblings) three allocators of one composable kind (pools, collections, stack, iteration, mixed) share one upstream that carves "
                     "their blocks back to back, with a static_allocator's storage placed exactly between two of the blocks (its first node starts one "
                     "past the end of a sibling's block, its last can end where the next block starts); every live allocation is offered to every "
                     "allocator that did not hand it out (must be refused, capacity figures and all live patterns unchanged) and then to its owner "
                     "(must be accepted). (routing) fallback / segregator / aligned / tracked compositions up to depth 3 over instrumented composable "
                     "leaves and real fixed-size pools, stacks and collections as default allocator, phases that fill the default until it spills and "
                     "drain it again; each leaf checks that what it handed out comes back to it once, with the shape of its own allocation. "
                     "non-trivial = every completed case; distinct = FNV-1a of kind, configuration and operation sequence",
                assumptions=ASSUME_COMMON + ["nested fallback_allocators need distinct sub-allocator types to compile (ambiguous ebo_storage bases otherwise)"],
                minima={"cases": 500, "distinct_nontrivial": 300, "foreign_offers": 50000, "own_releases": 5000, "served_by_leaf": 5000,
                        "served_by_real_allocator": 1000, "alloc_static": 300})


def plan_c09(tier, seed):
    q = tier == "quick"
    cfgs = ["rwd", "dbg"] if q else ["rel", "rwd", "dbg"]
    n = _scale(tier, 40, 1000)
    ck = _scale(tier, 40, 200)
    jobs = []
    for cfg in cfgs:
        for k in FORWARD_KINDS:
            jobs += [Job("h_compose", cfg, "asan", "forward", k, c, ops=_scale(tier, 200, 1000), cpu=300) for c in chunks(n, ck)]
        for k in ("tracked<fallback<fallback<leaf,leaf>,leaf>>", "fallback<tracked<leaf>,leaf>", "aligned<fallback<leaf,leaf>>",
                  "fallback<leaf-node-functions-only,leaf>", "fallback<reference<leaf>,reference<leaf>>", "fallback<any_reference<leaf>,reference<leaf>>"):
            jobs += [Job("h_compose", cfg, "asan", "routing", k, c, ops=_scale(tier, 200, 400), cpu=_scale(tier, 40, 120)) for c in chunks(n, ck)]
    # the type-erased reference under containers: allocators of different (stateless and stateful) types behind any_std_allocator
    for cfg in cfgs[:1] if q else cfgs:
        for k in ["%s/any_std_allocator-stateless" % c for c in ("list", "set", "vector", "unordered_map")] + ["vector/any_std_allocator", "list/any_std_allocator"]:
            jobs += [Job("h_stl", cfg, "asan", "programs", k, c, ops=_scale(tier, 150, 300), cpu=600) for c in chunks(_scale(tier, 40, 800), 40 if q else 200)]
    return dict(jobs=jobs, level="exploration",
                rule="case = (configuration, wrapper composition, index). 22 compositions of allocator_adapter / allocator_reference / "
                     "any_allocator_reference / thread_safe_allocator / aligned_allocator / tracked_allocator / binary_segregator / segregator / "
                     "memory_resource_adapter+memory_resource_allocator / std_allocator / deleters and smart-pointer helpers, depth 1 to 3, over a "
                     "full-interface leaf, a minimal-interface leaf and a leaf whose max_node_size() changes; seeded requests of 1..70000 bytes, "
                     "alignment 1..16, count==1 arrays, sizes on both sides of the thresholds. Oracle at the leaf: one leaf allocation per request with "
                     "at least the bytes and alignment asked for, one leaf release per release on the same leaf with the shape of that leaf "
                     "allocation; trackers see each successful operation once with the top-level shape. non-trivial = every completed case; "
                     "distinct = FNV-1a of kind, configuration and operation sequence",
                assumptions=ASSUME_COMMON + ["tracked_allocator is only type-erased over composable allocators (it declares the composable members "
                                             "unconditionally; a compile-time matter)"],
                minima={"cases": 500, "distinct_nontrivial": 300, "alloc_node": 20000, "alloc_array": 10000, "release": 20000, "std_allocate": 2000,
                        "smart_pointers": 300})


MUTEX_KINDS = ["empty-stateful-allocator+monitor-mutex", "direct_storage+monitor-mutex", "reference_storage+monitor-mutex", "any_reference+monitor-mutex", "direct_storage+std::mutex"]
REAL_TS_KINDS = ["thread_safe<pool<node>>", "thread_safe<pool<small>>", "thread_safe<coll<node,log2>>", "thread_safe<stack>"]
STATELESS_KINDS = ["heap_allocator", "malloc_allocator", "new_allocator", "virtual_memory_allocator"]
EXIT_KINDS = ["exit/workers-only", "exit/main-only", "exit/main-and-workers", "exit/workers-with-initializers", "exit/nothing-used",
              "exit/main-initializer-then-workers"]


def plan_c13(tier, seed):
    q = tier == "quick"
    jobs = []
    cfgs = ["rwd"] if q else ["rwd", "dbg"]
    n = _scale(tier, 6, 60)
    ops = _scale(tier, 3000, 6000)
    for cfg in cfgs:
        for fl in ("tsan", "plain"):
            extra = ["--maxthreads", "8" if q else "16"]
            for k in MUTEX_KINDS:
                jobs += [Job("h_thread", cfg, fl, "mutex", k, c, ops=ops, extra=extra, cpu=900) for c in chunks(n, 3 if q else 6)]
        for k in REAL_TS_KINDS:
            jobs += [Job("h_thread", cfg, "tsan", "real", k, c, ops=ops, cpu=900) for c in chunks(n, 3 if q else 6)]
        for k in STATELESS_KINDS:
            jobs += [Job("h_thread", cfg, "tsan", "stateless", k, c, ops=ops // 2, cpu=900) for c in chunks(n, 3 if q else 6)]
            jobs += [Job("h_thread", cfg, "plain", "statelessexit", "stateless-exit/" + k, c, cpu=900) for c in chunks(_scale(tier, 4, 40), 4)]
        for k in ("new-handler/new_allocator", "new-handler/thread_safe<new_allocator>"):
            jobs += [Job("h_thread", cfg, "plain", "newhandler", k, c, ops=_scale(tier, 2000, 5000), cpu=900) for c in chunks(_scale(tier, 6, 60), 3 if q else 6)]
    return dict(jobs=jobs, level="exploration",
                rule="case = (configuration, storage policy x mutex type | real allocator | stateless allocator, sanitizer, index): 2..8 (thorough 16) "
                     "threads issue a seeded mix of every forwarding member of allocator_storage (throwing, composable, max_* queries) and the lock() "
                     "proxy. (mutex) an instrumented allocator checks on every entry that the instrumented mutex is held by the calling thread and "
                     "that no other thread is inside, then yields / sleeps / spins inside the call; an unsynchronised counter in the allocator gives "
                     "ThreadSanitizer something to see. (real) memory_pool / small pool / collection / stack behind std::mutex with per-thread "
                     "byte patterns under ThreadSanitizer. (stateless) heap / malloc / new / virtual memory allocators bare and wrapped: no lock may "
                     "be taken. (statelessexit) child processes whose threads use a stateless allocator concurrently and exit with a known "
                     "number of live blocks: the exit-time leak report must give exactly that figure. (newhandler) 2..8 threads issue requests "
                     "::operator new cannot serve next to ordinary ones on new_allocator, bare and wrapped, while a monitor thread polls "
                     "std::get_new_handler(): every failed request consulted the program's handler on its own thread and ended in out_of_memory, "
                     "and the program's handler is installed at every observation and at the end. non-trivial = every completed multi-threaded case; distinct = FNV-1a of kind, configuration and thread/operation "
                     "counts. Evidence lists entries per member and contended acquisitions.",
                assumptions=ASSUME_COMMON + ["schedules are those the OS produced plus the delays injected inside the wrapped allocator; mutex types: "
                                             "std::mutex and the instrumented one"],
                minima={"cases": 40, "distinct_nontrivial": 20, "monitored_entries": 200000, "contended_acquisitions": 2000,
                        "entries_max_node_size": 5000, "entries_try_deallocate_array": 2000, "real_allocator_ops": 50000, "stateless_ops": 50000,
                        "failed_requests": 5000, "handler_observations": 100000, "exit_children": 8})


def plan_c14(tier, seed):
    q = tier == "quick"
    jobs = []
    cfgs = ["rwd"] if q else ["rwd", "dbg"]
    ns = _scale(tier, 2000, 100000)
    for cfg in cfgs:
        jobs += [Job("h_thread", cfg, "plain", "sched", "scheduled", c, extra=["--maxthreads", "3" if q else "4"], cpu=900)
                 for c in chunks(ns, 250 if q else 5000)]
        jobs += [Job("h_thread", cfg, "tsan", "sched", "scheduled", c, extra=["--maxthreads", "3"], cpu=900) for c in chunks(ns // 10, 100 if q else 1000)]
        for k in ("sequential-threads", "concurrent-threads"):
            jobs += [Job("h_thread", cfg, "tsan", "free", k, c, cpu=900) for c in chunks(_scale(tier, 40, 600), 10 if q else 60)]
            jobs += [Job("h_thread", cfg, "plain", "free", k, c, cpu=900) for c in chunks(_scale(tier, 40, 600), 10 if q else 60)]
        # simultaneous adoption of unused stacks; few processes at a time so that the threads really run in parallel
        jobs += [Job("h_thread", cfg, "plain", "free", "stampede", c, cpu=900) for c in chunks(_scale(tier, 12, 200), 3 if q else 10)]
        for k in EXIT_KINDS:
            jobs += [Job("h_thread", cfg, "plain", "exit", k, c, cpu=300) for c in chunks(_scale(tier, 6, 60), 6 if q else 20)]
    # (a) scope: nested temporary_allocator scopes leave the stack as it was (replay equality), in h_low
    cfgs2 = ["rwd", "dbg"] if q else T_CFGS
    jobs += low_jobs(cfgs2, _scale(tier, 60, 1000), 300, _scale(tier, 30, 100), kinds=TEMP_KINDS)
    return dict(jobs=jobs, level="exploration",
                rule="(sched) 2..3 (thorough 4) threads run seeded programs of initializer scopes / get_temporary_stack() / nested temporary_allocators; "
                     "a token scheduler installed through the guarded hook parks every thread at each of the 12 scheduling points of the stack list "
                     "(and through thread exit) and lets a PRNG choose who runs next; every action is logged call-before / return-after with one "
                     "logical clock; offline checker: no stack is obtained by a thread while another live thread holds it, and the number of stack "
                     "objects never exceeds the peak number of live threads (second wave of threads must reuse). (free) the same programs free-"
                     "running, sequential and concurrent, under ThreadSanitizer. (exit) child processes (workers only / main only / both / with "
                     "initializers / nothing used) whose exit must produce no leak report from the library's own handler. (scope) nested "
                     "temporary_allocator scopes with replay equality of the first request after each scope. non-trivial = every completed case; "
                     "distinct = FNV-1a including the interleaving's point sequence for scheduled runs. No liveness claim; temporary stack mode 1 "
                     "does not build with the installed compilers (DESIGN.md section 3).",
                assumptions=ASSUME_COMMON + ["interleavings are enumerated at the guarded scheduling points only; between them the code runs unpreempted "
                                             "under the scheduler (free-running runs under ThreadSanitizer cover the rest)"],
                minima={"cases": 500, "distinct_nontrivial": 400, "distinct_interleavings": 1500, "scheduling_points": 50000, "events_checked": 20000,
                        "exit_children": 30, "scopes": 2000, "replayed_requests": 500})


STL_CONTAINERS = ["list", "forward_list", "set", "multiset", "map", "multimap", "unordered_set", "unordered_map", "vector", "deque", "basic_string"]
STL_PROGRAM_KINDS = ["%s/%s" % (c, a) for a in ("std_allocator", "any_std_allocator") for c in STL_CONTAINERS] + ["smart-pointers"] \
    + ["%s/any_std_allocator-stateless" % c for c in ("list", "set", "vector", "unordered_map")] \
    + ["%s/std_allocator-composed" % c for c in ("list", "vector", "deque", "basic_string", "unordered_map")] \
    + ["list/std_allocator-propagate<move,swap>", "vector/std_allocator-propagate<move,swap>", "map/std_allocator-propagate<move,swap>",
       "list/std_allocator-propagate<copy>", "unordered_set/std_allocator-propagate<copy>", "set/std_allocator-propagate<swap>",
       "deque/std_allocator-propagate<swap>", "list/std_allocator-propagate<none>", "vector/std_allocator-propagate<none>",
       "list/std_allocator-shared", "vector/std_allocator-shared", "unordered_map/std_allocator-shared"]
NODESIZE_KINDS = ["forward_list", "list", "set", "multiset", "unordered_set", "unordered_multiset", "map", "multimap", "unordered_map",
                  "unordered_multimap", "shared_ptr"]


def plan_c10(tier, seed):
    q = tier == "quick"
    cfgs = ["rwd"] if q else ["rwd", "dbg"]
    n = _scale(tier, 40, 1200)
    jobs = []
    for cfg in cfgs:
        for k in STL_PROGRAM_KINDS:
            jobs += [Job("h_stl", cfg, "asan", "programs", k, c, ops=_scale(tier, 150, 300), cpu=600) for c in chunks(n, 40 if q else 200)]
        # deleters and smart-pointer helpers over value types from 1 byte to above 64 KiB, base/derived conversions
        jobs += [Job("h_compose", cfg, "asan", "forward", "std_allocator+deleters", c, ops=_scale(tier, 200, 1000), cpu=300) for c in chunks(_scale(tier, 40, 400), 40 if q else 200)]
    # containers on a thread_safe_allocator whose allocator refuses a request: the storage must stay usable (same observation as C03/C13)
    for k in ("direct_storage+monitor-mutex", "reference_storage+monitor-mutex"):
        jobs += [Job("h_thread", "rwd", "plain", "mutex", k, c, ops=_scale(tier, 2000, 4000), extra=["--maxthreads", "4"], cpu=900) for c in chunks(_scale(tier, 3, 30), 3)]
    if q:
        for k in NODESIZE_KINDS:
            jobs.append(Job("h_stl", "rwd", "asan", "nodesize", k, (0, 50), cpu=600))
    else:
        for k in NODESIZE_KINDS:
            jobs += [Job("h_stl", "rwd", "asan", "nodesize", k, c, defines=("VERIF_FULL_GRID",), cpu=900) for c in chunks(248, 62)]
    return dict(jobs=jobs, level="exploration",
                rule="(programs) case = (configuration, container kind x {std_allocator, any_std_allocator, any_std_allocator over stateless allocators, "
                     "std_allocator over fallback_allocator<reference<leaf>,reference<leaf>> with a small first leaf}, index): two containers bound to the same or "
                     "to different instrumented allocator objects run a seeded program of insert / erase / clear / copy and move assignment / swap / "
                     "copy construction (plain and with allocator) / move construction with allocator / splice (only issued when get_allocator() == "
                     "says equal); every release reaching a leaf that did not hand the memory out, a shape mismatch, unbalanced leaves at the end, "
                     "contents differing from std::allocator mirror containers, or an operator== that disagrees with which leaf the allocators really "
                     "allocate from (determined by a probing allocation) is a violation. (nodesize) for element types elem<S,A> (quick 50 types, "
                     "thorough all 248 with A in 1..16, S a multiple of A up to 128) and 11 node containers a recording allocator measures the "
                     "largest single-node request and compares it with X_node_size<T>::value as generated by the repository's configure-time probe on "
                     "the current tree; then the container runs on a real memory_pool<node_pool> created with that constant. non-trivial = every "
                     "completed case; distinct = FNV-1a of kind, configuration and operation sequence",
                assumptions=ASSUME_COMMON + ["libstdc++ of this image; swap is only issued when the allocators propagate on swap or compare equal"],
                minima={"cases": 500, "distinct_nontrivial": 300, "equality_checks": 3000, "inserts": 30000, "node_size_measurements": 400,
                        "pool_nodes_served": 20000, "smart_ops": 1000})


JOINT_KINDS = ["J<1/1,4/4>", "J<3/1,16/16>", "J<16/16,2/2>", "J<24/8,12/4>", "J<8/8,32/16>", "J<6/2,5/1>"]


def plan_c11(tier, seed):
    q = tier == "quick"
    cfgs = Q_CFGS if q else T_CFGS
    n = _scale(tier, 60, 1500)
    jobs = []
    for cfg in cfgs:
        for k in JOINT_KINDS:
            jobs += [Job("h_joint", cfg, "asan", "layout", k, c, ops=_scale(tier, 150, 300), cpu=300) for c in chunks(n, 60 if q else 150)]
    return dict(jobs=jobs, level="exploration",
                rule="case = (configuration, joint type with element sizes/alignments 1..32/1..16, index): a seeded sequence of allocate_joint (two "
                     "joint_arrays built by size / size+value / initializer_list / forward-range / input-range forms and a vector with joint_allocator; "
                     "element counts 0..11; additional size exactly fitting, one byte short, generous, zero; upstream blocks with two different address "
                     "residues modulo 16), clone_joint into either allocator, reset / = nullptr, swap, move assignment, move construction. Every member "
                     "address is compared with the block the instrumented upstream handed out; non-fitting requests must throw out_of_fixed_memory; "
                     "releases are checked by the upstream (one call, same size and alignment). non-trivial = every completed case (each creates and "
                     "destroys joint objects); distinct = FNV-1a of kind, configuration and operation sequence",
                assumptions=ASSUME_COMMON + ["the exact-fit computation pads empty arrays too (they align the joint stack), see DESIGN.md C11"],
                minima={"cases": 300, "distinct_nontrivial": 200, "joint_created": 3000, "out_of_fixed_memory": 2000, "clones": 500, "moves": 1000,
                        "layouts_verified": 5000})


def plan_c20(tier, seed):
    q = tier == "quick"
    cfgs = Q_CFGS if q else T_CFGS
    n = _scale(tier, 6, 60)
    jobs = []
    for cfg in cfgs:
        for k in JOINT_KINDS:
            jobs += [Job("h_joint", cfg, "asan", "throw", k, c, cpu=600) for c in chunks(n, 3 if q else 6)]
    return dict(jobs=jobs, level="fault_enumeration",
                rule="case = (configuration, element type pair, index). For allocate_unique<T>, allocate_unique<T[]> (every length 0..16), allocate_shared "
                     "(on the instrumented allocator and on a real memory_pool / memory_stack), allocate_joint with every joint_array constructor form "
                     "(size, size+value, initializer_list, forward range, single-pass input range, copy-with-joint, move-with-joint) and clone_joint: the "
                     "creation is first run without failure to count the element constructions N, then once per index k < N with the k-th construction "
                     "throwing a tagged exception. After each: live-element ledger back to its previous size, no double destruction, upstream balance "
                     "unchanged, the caught exception is the injected one. A joint_array whose element k threw is built again in exactly fitting joint "
                     "memory. non-trivial = every completed case; distinct = FNV-1a of kind, configuration and operation sequence",
                assumptions=ASSUME_COMMON, minima={"cases": 30, "distinct_nontrivial": 20, "failures_injected": 5000, "retries_succeeded": 300,
                                                   "successful_creations": 500})


def plan_c12(tier, seed):
    q = tier == "quick"
    cfgs = Q_CFGS if q else T_CFGS
    n = _scale(tier, 60, 1000)
    ops = _scale(tier, 250, 400)
    ck = _scale(tier, 60, 150)
    jobs = pool_jobs(cfgs, ["walk", "phased", "corner"], n, ops, ck) + coll_jobs(cfgs, ["walk", "phased"], n // 2, ops, ck) \
        + stack_jobs(cfgs, ["walk", "phased"], n, ops, ck, kinds=STACK_KINDS + ITER_KINDS) + arena_jobs(cfgs, tier)
    return dict(jobs=jobs, level="exploration",
                rule=RULE_HISTORY % ("operations with move construction, move assignment (onto fresh and onto used targets) and swap inserted at seeded "
                                     "positions; the shadow heap, the upstream log and the leak handler keep judging across the move",
                                     "the history contains at least one move construction, move assignment or swap"),
                assumptions=ASSUME_COMMON, minima={"cases": 500, "distinct_nontrivial": 300, "move_construct": 500, "move_assign": 500, "swap": 100})


def plan_c15(tier, seed):
    q = tier == "quick"
    cfgs = ["rwd", "dbg"] if q else ["rel", "rwd", "dbg", "chk"]
    n = _scale(tier, 60, 1000)
    ops = _scale(tier, 200, 400)
    ck = _scale(tier, 60, 150)
    jobs = pool_jobs(cfgs, ["walk", "phased"], n, ops, ck) + coll_jobs(cfgs, ["walk", "phased"], n // 2, ops, ck) \
        + stack_jobs(cfgs, ["walk"], n, ops, ck, kinds=STACK_KINDS)
    for cfg in cfgs:
        for k in ("heap_allocator", "malloc_allocator", "new_allocator", "virtual_memory_allocator"):
            jobs.append(Job("h_debug", cfg, "plain", "exitleak", "exit-leak/" + k, (0, _scale(tier, 9, 60)), cpu=120))
            jobs.append(Job("h_thread", cfg, "plain", "statelessexit", "stateless-exit/" + k, (0, _scale(tier, 4, 24)), cpu=900))
    return dict(jobs=jobs, level="exploration",
                rule=RULE_HISTORY % ("allocator_traits-level node and array allocations and releases (array element sizes different from node sizes), moves "
                                     "at seeded points, destruction with and without outstanding allocations; a recording leak handler is compared with "
                                     "the model's net byte count at every destruction",
                                     "memory was released and the allocator was destroyed with a non-zero net count or was moved"),
                assumptions=ASSUME_COMMON + ["the stateless allocators' exit-time report is decided by child processes (h_debug exitleak): the amount is "
                                             "compared exactly where the allocator counts the requested size, and as a lower bound where fences are counted too"],
                minima={"cases": 300, "distinct_nontrivial": 200, "leak_reports_checked": 300, "silent_destructions_checked": 300,
                        "exit_reports_checked": 20, "silent_exits_checked": 10})


CAP_KINDS = ["pool<node>", "pool<array>", "pool<small>"]
BAD_KINDS = ["pool<node>", "pool<array>", "pool<small>", "stack", "block-source", "static-exhaustion-valid"]


def plan_c16(tier, seed):
    q = tier == "quick"
    n = _scale(tier, 100, 1200)
    jobs = []
    for cfg in ("rwd", "dbg", "chk"):
        for k in BAD_KINDS:
            jobs += [Job("h_debug", cfg, "plain", "bad", k, c, cpu=300) for c in chunks(n, 50 if q else 200)]
    # "valid releases in any order never trigger a report": valid histories with the recording handlers, in every configuration
    cfgs = ["rwd", "dbg", "chk"] if q else ["rel", "rwd", "dbg", "dbg16", "chk"]
    m = _scale(tier, 30, 500)
    jobs += pool_jobs(cfgs, ["walk", "corner", "phased"], m, 250, _scale(tier, 30, 100)) + coll_jobs(cfgs, ["walk", "phased", "corner"], m, 250, _scale(tier, 30, 100)) \
        + stack_jobs(cfgs, ["walk"], m, 250, _scale(tier, 30, 100), kinds=STACK_KINDS)
    return dict(jobs=jobs, level="fault_enumeration",
                rule="(a) one child process per bad call: a seeded valid prefix on a real allocator, then exactly one invalid release of a class the "
                     "configuration's checks cover (small-node pool: foreign pointer, chunk header, before/after every chunk, misaligned; node/array/"
                     "small pools with the double-free check: first / last / most recently freed / middle free node; memory_stack: stale marker above "
                     "the top in the same and in a dropped block; static / virtual / fixed block sources: out-of-order or foreign block). The child's "
                     "end is classified handler / abort / other fatal signal / continued; continued = missed = violation; a report during the valid "
                     "prefix is a violation too. (b) valid histories of pools, collections and stacks in every configuration with counting handlers "
                     "that must stay at zero. non-trivial = a case that performed a bad call in a child, or a valid history that released memory with "
                     "several allocations live; distinct = FNV-1a of kind, configuration and operation sequence",
                assumptions=ASSUME_COMMON + ["'stops the program' is accepted in any form (handler, assertion, unreachable path) as the property says",
                                             "pointers to unmapped memory are not used: the debug fill writes to the pointer before any check"],
                minima={"cases": 500, "distinct_nontrivial": 300, "outcome_handler": 300, "outcome_abort": 50, "release_node": 5000})


FENCE_KINDS = ["heap_allocator", "malloc_allocator", "new_allocator", "virtual_memory_allocator"]


def plan_c17(tier, seed):
    q = tier == "quick"
    n = _scale(tier, 12, 60)
    jobs = []
    for cfg in (["rwd", "dbg", "dbg16"] if q else ["rwd", "dbg", "dbg16", "chk"]):
        for k in FENCE_KINDS:
            extra = ["--values", "3" if q else "8"] + ([] if q else ["--allvalues", "1"])
            jobs += [Job("h_debug", cfg, "plain", "fence", k, c, extra=extra, cpu=600) for c in chunks(n, 6)]
    # (b) fill patterns: the shadow heap checks the new-memory pattern of every fresh allocation and the freed pattern of released pool nodes
    cfgs = ["rwd", "dbg"] if q else ["rwd", "dbg", "dbg16", "chk"]
    m = _scale(tier, 30, 500)
    ck = _scale(tier, 30, 100)
    jobs += pool_jobs(cfgs, ["walk"], m, 250, ck) + coll_jobs(cfgs, ["walk"], m // 2, 250, ck) \
        + stack_jobs(cfgs, ["walk"], m, 250, ck, kinds=STACK_KINDS + ITER_KINDS + ["static_allocator"]) + low_jobs(cfgs, m, 250, ck)
    return dict(jobs=jobs, level="fault_enumeration",
                rule="(a) per low-level allocator and node (size classes: 1..40, 2^k-1..2^k+1, around 4096, 1..4100; alignments 1..16): the fence extent is "
                     "measured by scanning outward from the node for the fence pattern; then one byte at every fence offset (page-sized fences of "
                     "virtual memory: the 24 offsets at each edge plus a 2% seeded sample) is overwritten with values different from the pattern "
                     "(quick 3 values, thorough 8 and all 255 at the four edge offsets), the node is released and the recording handler must have been "
                     "called exactly once with (node, size, address of that byte); front+back corruption: first report names the lowest address; "
                     "in-bounds writes of any byte incl. the fence value: never reported; fence-0 configuration as control. (b) histories in every "
                     "fill configuration where every fresh allocation must carry the new-memory pattern on all bytes and released pool nodes the "
                     "freed pattern behind the link bytes. non-trivial = a corruption case, or a history with several live allocations and releases",
                assumptions=ASSUME_COMMON + ["(a) runs without a sanitizer because the fence extent is measured by reading outward from the node"],
                minima={"cases": 300, "distinct_nontrivial": 200, "corruptions": 10000, "double_corruptions": 300, "inbounds_checks": 200,
                        "new_fill_bytes_checked": 1000000, "freed_fill_bytes_checked": 100000})


def plan_c18(tier, seed):
    q = tier == "quick"
    jobs = []
    if q:
        for cfg in ("rel", "dbg"):
            for k in CAP_KINDS:
                jobs += [Job("h_cap", cfg, "plain", "grid", k, c, extra=["--boundary", "1"], cpu=200) for c in chunks(131, 22) if c[1] > 1]
            jobs += [Job("h_cap", cfg, "plain", "stack", "stack+arena", c, cpu=100) for c in chunks(16, 4)]
    else:
        for cfg in ("rel", "rwd", "dbg"):
            for k in CAP_KINDS:
                jobs += [Job("h_cap", cfg, "plain", "grid", k, c, cpu=2000) for c in chunks(513, 8) if c[1] > 1]
            jobs += [Job("h_cap", cfg, "plain", "stack", "stack+arena", c, cpu=300) for c in chunks(64, 4)]
    # case 0 would be node size 0, which is not a valid node size
    for j in jobs:
        if j.group == "grid" and j.cases[0] == 0:
            j.cases = (1, j.cases[1])
    cfgs = Q_CFGS if q else T_CFGS
    n = _scale(tier, 40, 800)
    ops = _scale(tier, 250, 400)
    ck = _scale(tier, 40, 100)
    jobs += pool_jobs(cfgs, ["walk", "phased"], n, ops, ck) + coll_jobs(cfgs, ["walk"], n // 2, ops, ck) \
        + stack_jobs(cfgs, ["walk", "phased"], n, ops, ck, kinds=STACK_KINDS + ITER_KINDS + ["static_allocator"]) \
        + fail_jobs(["rwd", "dbg"], tier) + arena_jobs(cfgs, tier)
    plan = dict(jobs=jobs, level="exploration",
                rule="(a) grid: one case = one node size of one pool type; for every node count of the tier's set (quick: counts <= 16, within 2 of a "
                     "multiple of 255, powers of two and a 2% seeded sample, node sizes 1..130; thorough: every count 1..2000 for every node size "
                     "1..512) a pool is built with min_block_size(size, count) over a counting upstream and must report room for count nodes from one "
                     "block, serve them for a sample, and grow by what next_capacity() announced; memory_stack / memory_arena min_block_size for every "
                     "byte size of the chunk. (b) histories of pools, collections, stacks, iteration and static allocators with the capacity figure "
                     "compared with a model before and after every operation. non-trivial = grid case, or a history with growth and release, or an "
                     "exact min_block_size check; distinct = FNV-1a of kind, configuration and operation sequence",
                assumptions=ASSUME_COMMON, minima={"cases": 300, "distinct_nontrivial": 200, "constructions": 10000, "nodes_served": 100000,
                                                   "growth_checks": 300})
    if not q:
        plan["exhaustive_note"] = "the min_block_size grid 3 pool types x node sizes 1..512 x counts 1..2000 is enumerated completely in the thorough tier"
    return plan


def plan_c19(tier, seed):
    q = tier == "quick"
    jobs = []
    for fl in (["asan"] if q else ["asan", "plain", "casan"]):
        jobs += [Job("h_arith", "rwd", fl, "small", "all", c, cpu=120) for c in chunks(64, 8)]
        jobs += [Job("h_arith", "rwd", fl, "boundary", "all", c, cpu=120) for c in chunks(65, 13)]
        jobs += [Job("h_arith", "rwd", fl, "buckets", "all", (0, 16), cpu=120)]
        # bucket selection from several threads at once (pure function of the size)
        if fl != "casan":
            jobs += [Job("h_arith", "rwd", fl, "buckets-threads", "all", (0, 5 if q else 20), cpu=300)]
        # collections with static storage duration (created before main): the same bucket selection
        jobs += [Job("h_arith", cfg, fl, "buckets-static", "all", (0, 1), cpu=120) for cfg in (["rwd", "dbg"] if q else ["rel", "rwd", "dbg"])]
    jobs += [Job("h_arith", "rwd", "tsan", "buckets-threads", "all", (0, 3 if q else 10), extra=["--lookups", "20000"], cpu=300)]
    # bucket selection as the collections use it, through all three interfaces (member, allocator_traits, composable traits)
    jobs += coll_jobs(["rwd", "dbg"], ["walk"], _scale(tier, 20, 400), 250, _scale(tier, 20, 100))
    for cfg in ("rwd", "dbg"):
        for k in FAIL_KINDS:
            if k.startswith("coll"):
                jobs += [Job("h_fail", cfg, "asan", "maxima", k, c, cpu=300) for c in chunks(_scale(tier, 100, 1500), 50 if q else 150)]
    nrand = 16 if q else 100
    per = 62500 if q else 1000000
    jobs += [Job("h_arith", "rwd", "asan" if q else "plain", "random", "all", c, extra=["--samples", str(per)], cpu=300) for c in chunks(nrand, 1)]
    return dict(jobs=jobs, level="exploration",
                rule="inputs: the complete domain 1..65536 x all 64 power-of-two alignments; 2^k + d for every k in 0..64 and |d| <= 64 x all 64 "
                     "alignments; seeded 64-bit values x a seeded alignment; bucket selection for every size 1..max for three list types x two bucket "
                     "distributions x sixteen maximum node sizes (1..7, below the lists' own minimum node size, included), again after the array "
                     "was move-assigned, and for six collection objects with static storage duration that are constructed before main (compared with "
                     "the same object created in main; four live nodes of every size must be disjoint and keep their bytes), and from 2..6 threads at "
                     "once, each with arrays and size ranges of its own (plain and under ThreadSanitizer); is_valid_alignment against a bit count. evaluations = function evaluations compared with a definitional reference (loops / "
                     "128-bit arithmetic); distinct_nontrivial = distinct (function input) tuples, counted exactly for the enumerated domains and by a "
                     "hash set for seeded samples of up to 2e6 values (larger sample runs count 0 for their part). Results not representable in 64 "
                     "bits are counted (not_representable_unjudged) and not judged.",
                assumptions=["the reference implementations are correct", "x86-64, 64-bit size_t"],
                minima={"evals": 4000000, "distinct_inputs": 4000000},
                cov_from_events={"evaluations": "evals", "distinct_nontrivial": "distinct_inputs"})


PLANS = {
    "C16": plan_c16,
    "C17": plan_c17,
    "C18": plan_c18,
    "C19": plan_c19,
    "C01": plan_c01,
    "C03": plan_c03,
    "C02": plan_c02,
    "C04": plan_c04,
    "C05": plan_c05,
    "C06": plan_c06,
    "C07": plan_c07,
    "C08": plan_c08,
    "C09": plan_c09,
    "C10": plan_c10,
    "C11": plan_c11,
    "C12": plan_c12,
    "C20": plan_c20,
    "C13": plan_c13,
    "C14": plan_c14,
    "C15": plan_c15,
}
