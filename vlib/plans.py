"""Per-property plans: which harness processes decide a property in which tier."""
from .run import Job

POOL_TYPES = ["node", "array", "small"]
SOURCES = ["grow", "fixed", "blk", "static", "virtual"]
POOL_KINDS = ["pool<%s>/%s" % (t, s) for t in POOL_TYPES for s in SOURCES]

COLL_KINDS = ["coll<%s,%s>/%s" % (t, b, s) for b in ("identity", "log2") for t in POOL_TYPES for s in SOURCES]

ASSUME_COMMON = [
    "the instrumented upstream allocators (probes) and the shadow heap are correct",
    "histories are contract-respecting as listed in DESIGN.md section 5",
    "verdict covers the executions produced on this Linux/x86-64/libstdc++ image only",
]


def chunks(n, size):
    return [(a, min(n, a + size)) for a in range(0, n, size)]


def hist_jobs(harness, kinds, cfgs, groups, ncases, ops, chunk, flavour="asan", cpu=40):
    jobs = []
    for cfg in cfgs:
        for g in groups:
            for k in kinds:
                for c in chunks(ncases, chunk):
                    jobs.append(Job(harness, cfg, flavour, g, k, c, ops=ops, cpu=cpu))
    return jobs


def pool_jobs(cfgs, groups, ncases, ops, chunk, flavour="asan", kinds=POOL_KINDS):
    return hist_jobs("h_pool", kinds, cfgs, groups, ncases, ops, chunk, flavour)


def coll_jobs(cfgs, groups, ncases, ops, chunk, flavour="asan", kinds=COLL_KINDS):
    return hist_jobs("h_coll", kinds, cfgs, groups, ncases, ops, chunk, flavour)


def plan_c04(tier, seed):
    q = tier == "quick"
    cfgs = ["rwd", "dbg"] if q else ["rel", "rwd", "dbg", "dbg16", "chk"]
    n = 100 if q else 1500
    ops = 250 if q else 400
    jobs = pool_jobs(cfgs, ["walk", "phased", "corner"], n, ops, n if q else 150) \
        + coll_jobs(cfgs, ["walk", "phased", "corner"], n // 2, ops, n if q else 150)
    return dict(jobs=jobs, level="exploration",
                rule="case = (config, pool kind x block source, generator mode walk|phased|corner, index); operations drawn from a "
                     "seeded PRNG; non-trivial = the history releases memory and contains an array whose byte size is not a multiple "
                     "of the node size, or an allocate/release cycle test, or a drain; distinct = FNV-1a of kind+config+operation sequence",
                assumptions=ASSUME_COMMON, minima={"cases": 100, "distinct_nontrivial": 50, "release_array": 100, "cycles": 20, "drains": 20})


PLANS = {
    "C04": plan_c04,
}
