"""Build matrix and cache: builds foonathan/memory and the harnesses from /repo's
current working tree for a (configuration, sanitizer flavour) pair.

Nothing is taken from /repo/_build; every object is compiled from the files that
are in /repo now.  The cache key is a hash over include/, src/, cmake/ and
CMakeLists.txt of /repo, so an edited tree is rebuilt, an unchanged one is not.
"""
import fcntl
import hashlib
import os
import shutil
import subprocess
import sys
import threading
import time
from concurrent.futures import ThreadPoolExecutor

REPO = os.environ.get("VERIF_REPO", "/repo")
ROOT = os.path.dirname(os.path.dirname(os.path.abspath(__file__)))
BUILD = os.path.join(ROOT, "build")
HARNESS = os.path.join(ROOT, "harness")
GUARD = "FOONATHAN_MEMORY_VERIF"


class BuildError(Exception):
    def __init__(self, what, log):
        Exception.__init__(self, what)
        self.log = log


# name: assert fill fence leak ptr dblfree tsmode
CONFIGS = {
    "rel": dict(ASSERT=0, FILL=0, FENCE=0, LEAK=0, PTR=0, DBL=0, TSM=2),
    "rwd": dict(ASSERT=0, FILL=1, FENCE=0, LEAK=1, PTR=1, DBL=0, TSM=2),
    "dbg": dict(ASSERT=1, FILL=1, FENCE=8, LEAK=1, PTR=1, DBL=1, TSM=2),
    "dbg16": dict(ASSERT=1, FILL=1, FENCE=16, LEAK=1, PTR=1, DBL=1, TSM=2),
    "chk": dict(ASSERT=0, FILL=1, FENCE=8, LEAK=1, PTR=1, DBL=1, TSM=2),
    "tsm1": dict(ASSERT=0, FILL=1, FENCE=0, LEAK=1, PTR=1, DBL=0, TSM=1),
}

FLAVOURS = {
    "asan": dict(cxx="g++", flags=["-O1", "-g", "-fno-omit-frame-pointer",
                                   "-fsanitize=address,undefined", "-fno-sanitize-recover=all"]),
    "tsan": dict(cxx="g++", flags=["-O1", "-g", "-fsanitize=thread"]),
    "plain": dict(cxx="g++", flags=["-O2", "-g"]),
    "casan": dict(cxx="clang++-14", flags=["-O1", "-g", "-fno-omit-frame-pointer",
                                           "-fsanitize=address,undefined", "-fno-sanitize=object-size",
                                           "-fno-sanitize-recover=all"]),
}

VERSION_DEFS = ["-DFOONATHAN_MEMORY=1", "-DFOONATHAN_MEMORY_VERSION_MAJOR=0",
                "-DFOONATHAN_MEMORY_VERSION_MINOR=7", "-DFOONATHAN_MEMORY_VERSION_PATCH=4"]


def _hash_files(paths):
    h = hashlib.sha1()
    for p in sorted(paths):
        # (paths relative to the tree, so that the same sources in another location share the cache)
        h.update((os.path.relpath(p, REPO) if p.startswith(REPO + os.sep) else os.path.relpath(p, ROOT)).encode())
        try:
            with open(p, "rb") as f:
                h.update(f.read())
        except OSError:
            h.update(b"<missing>")
    return h.hexdigest()


def _walk(d):
    out = []
    for root, _, files in os.walk(d):
        for f in files:
            out.append(os.path.join(root, f))
    return out


_tree_hash = None


def tree_hash():
    global _tree_hash
    if _tree_hash is None:
        files = _walk(os.path.join(REPO, "include")) + _walk(os.path.join(REPO, "src")) \
            + _walk(os.path.join(REPO, "cmake")) + [os.path.join(REPO, "CMakeLists.txt")]
        _tree_hash = _hash_files(files)[:16]
    return _tree_hash


def cmake_hash():
    files = _walk(os.path.join(REPO, "cmake")) + [os.path.join(REPO, "CMakeLists.txt"),
                                                  os.path.join(REPO, "src", "CMakeLists.txt")]
    return _hash_files(files)[:16]


# at most this many compiler processes at a time in one driver process (each needs up to ~1 GB with the sanitizers on;
# 128 at once exhausted the 62 GB of this machine)
_COMPILE_SLOTS = threading.BoundedSemaphore(int(os.environ.get("VERIF_COMPILE_JOBS", "16")))


class _Lock:
    def __init__(self, path):
        self.path = path

    def __enter__(self):
        os.makedirs(os.path.dirname(self.path), exist_ok=True)
        self.f = open(self.path, "w")
        fcntl.flock(self.f, fcntl.LOCK_EX)
        return self

    def __exit__(self, *a):
        fcntl.flock(self.f, fcntl.LOCK_UN)
        self.f.close()


def _run(cmd, cwd=None, what="command"):
    p = subprocess.run(cmd, cwd=cwd, stdout=subprocess.PIPE, stderr=subprocess.STDOUT, text=True)
    if p.returncode != 0:
        raise BuildError("%s failed (%d): %s" % (what, p.returncode, " ".join(cmd[:6])), p.stdout[-6000:])
    return p.stdout


def node_sizes_header():
    """container_node_sizes_impl.hpp produced by the repository's own configure-time
    probe (cmake/get_container_node_sizes.cmake) run on the current tree."""
    d = os.path.join(BUILD, "nodesizes-" + cmake_hash())
    out = os.path.join(d, "container_node_sizes_impl.hpp")
    with _Lock(d + ".lock"):
        if os.path.exists(out):
            return out
        tmp = d + ".tmp"
        shutil.rmtree(tmp, ignore_errors=True)
        os.makedirs(tmp)
        _run(["cmake", "-G", "Ninja", "-S", REPO, "-B", tmp,
              "-DFOONATHAN_MEMORY_BUILD_TESTS=OFF", "-DFOONATHAN_MEMORY_BUILD_EXAMPLES=OFF",
              "-DFOONATHAN_MEMORY_BUILD_TOOLS=OFF", "-DCMAKE_BUILD_TYPE=RelWithDebInfo"],
             what="cmake configure (node size probe)")
        src = os.path.join(tmp, "src", "container_node_sizes_impl.hpp")
        if not os.path.exists(src):
            raise BuildError("node size header was not generated", "")
        os.makedirs(d, exist_ok=True)
        shutil.copy(src, out)
        shutil.rmtree(tmp, ignore_errors=True)
    return out


def _config_header(cfg):
    c = CONFIGS[cfg]
    tmpl = open(os.path.join(REPO, "src", "config.hpp.in")).read()
    vals = {
        "FOONATHAN_MEMORY_CHECK_ALLOCATION_SIZE": 1,
        "FOONATHAN_MEMORY_DEBUG_ASSERT": c["ASSERT"],
        "FOONATHAN_MEMORY_DEBUG_FILL": c["FILL"],
        "FOONATHAN_MEMORY_DEBUG_LEAK_CHECK": c["LEAK"],
        "FOONATHAN_MEMORY_DEBUG_POINTER_CHECK": c["PTR"],
        "FOONATHAN_MEMORY_DEBUG_DOUBLE_DEALLOC_CHECK": c["DBL"],
        "FOONATHAN_MEMORY_EXTERN_TEMPLATE": 1,
    }
    subst = {
        "FOONATHAN_MEMORY_DEFAULT_ALLOCATOR": "heap_allocator",
        "FOONATHAN_MEMORY_DEBUG_FENCE": str(c["FENCE"]),
        "FOONATHAN_MEMORY_TEMPORARY_STACK_MODE": str(c["TSM"]),
    }
    out = []
    for line in tmpl.splitlines():
        s = line.strip()
        if s.startswith("#cmakedefine01"):
            name = s.split()[1]
            if name not in vals:
                raise BuildError("config.hpp.in has an option the build matrix does not know: " + name, "")
            out.append("#define %s %d" % (name, vals[name]))
        else:
            for k, v in subst.items():
                line = line.replace("${%s}" % k, v)
            if "${" in line:
                raise BuildError("config.hpp.in has a variable the build matrix does not know: " + line, "")
            out.append(line)
    return "\n".join(out) + "\n"


def variant_dir(cfg, flavour):
    return os.path.join(BUILD, tree_hash(), cfg + "-" + flavour)


def cxx_base(cfg, flavour, std="-std=gnu++17"):
    fl = FLAVOURS[flavour]
    d = variant_dir(cfg, flavour)
    return [fl["cxx"], std] + fl["flags"] + [
        "-I" + os.path.join(d, "cfg"), "-I" + os.path.join(REPO, "include"),
        "-I" + os.path.join(REPO, "include", "foonathan", "memory"),
        "-D" + GUARD] + VERSION_DEFS


def library(cfg, flavour):
    """Static library of the current tree for this variant. Returns path of lib.a."""
    d = variant_dir(cfg, flavour)
    lib = os.path.join(d, "libfoonathan_memory.a")
    with _Lock(d + ".lock"):
        if os.path.exists(lib):
            return lib
        ns = node_sizes_header()
        os.makedirs(os.path.join(d, "cfg"), exist_ok=True)
        os.makedirs(os.path.join(d, "obj"), exist_ok=True)
        with open(os.path.join(d, "cfg", "config_impl.hpp"), "w") as f:
            f.write(_config_header(cfg))
        shutil.copy(ns, os.path.join(d, "cfg", "container_node_sizes_impl.hpp"))
        srcs = sorted(p for p in _walk(os.path.join(REPO, "src")) if p.endswith(".cpp"))
        base = cxx_base(cfg, flavour)
        objs = []

        def comp(s):
            o = os.path.join(d, "obj", os.path.relpath(s, os.path.join(REPO, "src")).replace("/", "_") + ".o")
            with _COMPILE_SLOTS:
                _run(base + ["-c", s, "-o", o], what="compile " + os.path.relpath(s, REPO))
            return o
        with ThreadPoolExecutor(max_workers=min(16, len(srcs))) as ex:
            objs = list(ex.map(comp, srcs))
        tmp = lib + ".tmp"
        if os.path.exists(tmp):
            os.remove(tmp)
        _run(["ar", "rcs", tmp] + objs, what="ar")
        os.rename(tmp, lib)
    return lib


# link options a harness always needs
HARNESS_LINK = {
    "h_low": ("-Wl,--wrap=malloc,--wrap=free",),
}


def _harness_sources(name):
    """A harness is harness/<name>.cpp (+ harness/<name>_*.cpp) and harness/common/*."""
    srcs = []
    for f in sorted(os.listdir(HARNESS)):
        if f == name + ".cpp" or (f.startswith(name + "_") and f.endswith(".cpp")):
            srcs.append(os.path.join(HARNESS, f))
    return srcs


def harness(name, cfg, flavour, defines=(), link=()):
    """Builds harness `name` against the current tree. Returns path of the binary."""
    srcs = _harness_sources(name)
    if not srcs:
        raise BuildError("no such harness: " + name, "")
    link = tuple(link) + tuple(x for x in HARNESS_LINK.get(name, ()) if x not in link)
    common = _walk(os.path.join(HARNESS, "common"))
    hh = _hash_files(srcs + common + [])[:12]
    dd = hashlib.sha1((" ".join(defines) + "|" + " ".join(link)).encode()).hexdigest()[:6]
    d = variant_dir(cfg, flavour)
    exe = os.path.join(d, "%s-%s-%s" % (name, hh, dd))
    lib = library(cfg, flavour)
    with _Lock(exe + ".lock"):
        if os.path.exists(exe):
            return exe
        # drop binaries of older harness versions (only old ones: a concurrently running check may still be using a recent one)
        for f in os.listdir(d):
            if f.startswith(name + "-") and not f.endswith(".lock") and not f.startswith(os.path.basename(exe)) \
                    and f.split("-")[0] == name:
                try:
                    fp = os.path.join(d, f)
                    if time.time() - os.path.getmtime(fp) > 3600:
                        os.remove(fp)
                except OSError:
                    pass
        base = cxx_base(cfg, flavour) + ["-I" + HARNESS, "-Wall", "-Wno-unused"] + ["-D" + x for x in defines] \
            + ['-DVERIF_CONFIG_NAME="%s"' % cfg, '-DVERIF_FLAVOUR_NAME="%s"' % flavour]
        objs = []

        def comp(s):
            o = exe + "." + os.path.basename(s) + ".o"
            with _COMPILE_SLOTS:
                _run(base + ["-c", s, "-o", o], what="compile harness " + os.path.basename(s) + " [" + cfg + "/" + flavour + "]")
            return o
        with ThreadPoolExecutor(max_workers=8) as ex:
            objs = list(ex.map(comp, srcs))
        fl = FLAVOURS[flavour]
        _run([fl["cxx"]] + fl["flags"] + objs + [lib] + list(link) + ["-lpthread", "-ldl", "-o", exe + ".tmp"],
             what="link " + name)
        os.rename(exe + ".tmp", exe)
        for o in objs:
            os.remove(o)
    return exe


def prune():
    """Removes caches of other source trees (disk is limited). Only old ones: a cache that was used within the last hour may
    belong to a check running concurrently against another tree."""
    keep = tree_hash()
    if not os.path.isdir(BUILD) or os.environ.get("VERIF_REPO"):
        return
    now = time.time()
    ents = []
    for e in os.listdir(BUILD):
        p = os.path.join(BUILD, e)
        if os.path.isdir(p) and len(e) == 16 and e != keep:
            ents.append((os.path.getmtime(p), p))
    ents.sort()
    # keep the most recent other tree (switching back and forth between a patch and the clean tree is common)
    for mt, p in ents[:-1]:
        if now - mt > 3600:
            shutil.rmtree(p, ignore_errors=True)
    for e in os.listdir(BUILD):
        if e.startswith("nodesizes-") and not e.endswith(".lock") and e != "nodesizes-" + cmake_hash():
            p = os.path.join(BUILD, e)
            if os.path.isdir(p) and now - os.path.getmtime(p) > 3600:
                shutil.rmtree(p, ignore_errors=True)


def build_all(specs, jobs=16):
    """specs: iterable of (harness, cfg, flavour, defines, link). Builds in parallel.
    Returns dict spec -> exe path. Raises BuildError."""
    specs = list(dict.fromkeys(specs))
    try:
        os.makedirs(os.path.join(BUILD, tree_hash()), exist_ok=True)
        os.utime(os.path.join(BUILD, tree_hash()), None)  # "in use" marker for prune()
    except OSError:
        pass
    # libraries first (each is internally parallel)
    variants = list(dict.fromkeys((s[1], s[2]) for s in specs))
    node_sizes_header()
    with ThreadPoolExecutor(max_workers=4) as ex:
        list(ex.map(lambda v: library(*v), variants))
    with ThreadPoolExecutor(max_workers=jobs) as ex:
        exes = list(ex.map(lambda s: harness(s[0], s[1], s[2], s[3], s[4]), specs))
    return dict(zip(specs, exes))


if __name__ == "__main__":
    t = time.time()
    print(tree_hash())
    for c in sys.argv[1:]:
        cfg, fl = c.split("-")
        print(library(cfg, fl))
    print("%.1fs" % (time.time() - t))
