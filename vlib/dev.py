"""Developer helper: build one harness variant and run it, summarising the line protocol.
python3 -m vlib.dev h_stack rwd asan --prop C06 --group walk --cases 0..30 --ops 250"""
import collections
import json
import os
import subprocess
import sys

from . import build, run


def main():
    h, cfg, fl = sys.argv[1:4]
    rest = sys.argv[4:]
    try:
        exe = build.harness(h, cfg, fl)
    except build.BuildError as e:
        print(e)
        print("\n".join([l for l in e.log.splitlines() if "error" in l][:12]))
        return 2
    env = dict(os.environ)
    env.update(run.SAN_ENV.get(fl, {}))
    try:
        p = subprocess.run([exe] + rest, stdout=subprocess.PIPE, stderr=subprocess.PIPE, env=env,
                           timeout=int(os.environ.get("DEV_TIMEOUT", "120")))
    except subprocess.TimeoutExpired as e:
        print("TIMEOUT; last output:")
        print((e.stdout or b"").decode("utf-8", "replace")[-1500:])
        return 3
    c = collections.Counter()
    first = {}
    for l in p.stdout.decode("utf-8", "replace").splitlines():
        l = l.strip()
        if not l.startswith("{"):
            continue
        try:
            d = json.loads(l)
        except ValueError:
            print("BAD", l[:200])
            continue
        if d["t"] == "viol":
            c[d["key"]] += 1
            first.setdefault(d["key"], d)
        elif d["t"] == "stat":
            print("cases", d["cases"], "nontrivial", d["nontrivial"], d["events"])
        elif d["t"] == "crash":
            print("CRASH", d)
        elif d["t"] == "op":
            print("  %4d %s" % (d["step"], d["op"]))
    for k, d in first.items():
        print(c[k], k, "|", d["case"], "| step", d["step"], "|", d["msg"][:300])
        print("     ", " ; ".join(d["trace"][-8:]))
    err = p.stderr.decode("utf-8", "replace")
    if err.strip():
        lines = [x for x in err.splitlines() if x.strip()]
        print("--- stderr (%d lines) ---" % len(lines))
        print("\n".join(lines[:int(os.environ.get("ERRLINES", "14"))]))
    print("rc", p.returncode)


if __name__ == "__main__":
    sys.exit(main())
