import sys,json,collections
c=collections.Counter(); first={}
for l in sys.stdin:
    l=l.strip()
    if not l.startswith('{'): continue
    try: d=json.loads(l)
    except Exception as e: print('BAD',l[:200]); continue
    if d['t']=='viol':
        c[d['key']]+=1
        if d['key'] not in first: first[d['key']]=d
    elif d['t']=='stat': print('cases',d['cases'],'nontrivial',d['nontrivial'],{k:v for k,v in d['events'].items()})
    elif d['t']=='crash': print('CRASH',d)
for k,d in first.items(): print(c[k],k,'|',d['case'],'| step',d['step'],'|',d['msg'][:230]); print('    ',' ; '.join(d['trace'][-6:]))
