"""Process runner, verdict logic (three-valued), known-findings matching, replay and evidence files."""
import fnmatch
import glob
import hashlib
import json
import os
import re
import resource
import subprocess
import sys
import threading
import time
from concurrent.futures import ThreadPoolExecutor

from . import build

ROOT = build.ROOT
# (the three directories can be redirected, so that runs against a scratch tree do not overwrite the evidence of the real one)
EVIDENCE = os.environ.get("VERIF_EVIDENCE_DIR") or os.path.join(ROOT, "evidence")
REPLAYS = os.environ.get("VERIF_REPLAY_DIR") or os.path.join(ROOT, "replays")
LOGS = os.environ.get("VERIF_LOG_DIR") or os.path.join(ROOT, "logs")
KNOWN = os.path.join(ROOT, "known_findings.txt")

SAN_ENV = {
    "asan": {"ASAN_OPTIONS": "abort_on_error=1:detect_leaks=0:allocator_may_return_null=1:handle_abort=0:detect_stack_use_after_return=0",
             "UBSAN_OPTIONS": "print_stacktrace=1:halt_on_error=1:abort_on_error=1"},
    "casan": {"ASAN_OPTIONS": "abort_on_error=1:detect_leaks=0:allocator_may_return_null=1:handle_abort=0",
              "UBSAN_OPTIONS": "print_stacktrace=1:halt_on_error=1:abort_on_error=1"},
    "tsan": {"TSAN_OPTIONS": "halt_on_error=0:second_deadlock_stack=1:history_size=4"},
    "plain": {},
}


class Job:
    """One harness process: a contiguous range of cases of one (harness, cfg, flavour, group, kind)."""

    def __init__(self, harness, cfg, flavour, group, kind, cases, ops=None, extra=(), defines=(), link=(), cpu=120,
                 env=None, label=None):
        self.harness, self.cfg, self.flavour = harness, cfg, flavour
        self.group, self.kind = group, kind
        self.cases = cases  # (from, to)
        self.ops = ops
        self.extra = list(extra)
        self.defines, self.link = tuple(defines), tuple(link)
        self.cpu = cpu
        self.env = env or {}
        self.label = label or "%s|%s|%s|%s|%s|%d..%d" % (harness, cfg, flavour, group, kind, cases[0], cases[1])

    def spec(self):
        return (self.harness, self.cfg, self.flavour, self.defines, self.link)

    def argv(self, exe, prop, seed, cases=None, verbose=False):
        a, b = cases or self.cases
        v = [exe, "--prop", prop, "--group", self.group, "--kind", self.kind, "--seed", str(seed),
             "--cases", "%d..%d" % (a, b)]
        if self.ops is not None:
            v += ["--ops", str(self.ops)]
        v += self.extra
        if verbose:
            v.append("--verbose")
        return v


class Result:
    def __init__(self):
        self.viols = []      # dicts: prop key case step msg trace (+ job label, log)
        self.other = []      # violations of other properties seen on the way (reported as notes)
        self.stats = []      # stat dicts
        self.samples = []
        self.crashes = []
        self.inconclusive = []   # reasons
        self.procs = 0
        self.lock = threading.Lock()


def _limits(cpu):
    def f():
        resource.setrlimit(resource.RLIMIT_CPU, (cpu, cpu + 5))
        resource.setrlimit(resource.RLIMIT_CORE, (0, 0))
        os.setsid()
    return f


def _group_blocked(pgid, samples=10, gap=0.1):
    """True if, over `samples` looks, no thread of any process in the process group was runnable or in disk wait."""
    seen = 0
    for _ in range(samples):
        for pid in os.listdir("/proc"):
            if not pid.isdigit():
                continue
            try:
                st = open("/proc/%s/stat" % pid).read()
                rest = st[st.rindex(")") + 2:].split()
                if int(rest[2]) != pgid:
                    continue
                for tid in os.listdir("/proc/%s/task" % pid):
                    ts = open("/proc/%s/task/%s/stat" % (pid, tid)).read()
                    state = ts[ts.rindex(")") + 2:].split()[0]
                    seen += 1
                    if state in ("R", "D"):
                        return False
            except (OSError, ValueError, IndexError):
                continue
        time.sleep(gap)
    return seen > 0


def _san_summary(err_text):
    """Classifies what a sanitizer said on stderr. Returns short tag or None."""
    m = re.search(r"ERROR: AddressSanitizer: ([a-zA-Z0-9_-]+)", err_text)
    if m:
        return "asan:" + m.group(1)
    m = re.search(r"runtime error: ([^\n]*)", err_text)
    if m:
        what = m.group(1)
        what = re.sub(r"0x[0-9a-f]+", "ADDR", what)
        what = re.sub(r"\d+", "N", what)
        return "ubsan:" + what[:60].strip().replace(" ", "-")
    m = re.search(r"WARNING: ThreadSanitizer: ([a-zA-Z -]+?) \(pid", err_text)
    if m:
        return "tsan:" + m.group(1).strip().replace(" ", "-")
    m = re.search(r"ERROR: LeakSanitizer", err_text)
    if m:
        return "lsan:leak"
    m = re.search(r"Assertion failure|\[foonathan::memory\] Assertion", err_text)
    if m:
        return "assert"
    return None


def run_process(job, exe, prop, seed, cases, verbose=False, extra_env=None, stdin=None):
    """Runs one harness process. Returns (lines, returncode, stderr_text, timed_out)."""
    os.makedirs(os.path.join(LOGS, prop), exist_ok=True)
    env = dict(os.environ)
    env.update(SAN_ENV.get(job.flavour, {}))
    env.update(job.env)
    if extra_env:
        env.update(extra_env)
    argv = job.argv(exe, prop, seed, cases, verbose)
    wall = max(60, job.cpu * 6)
    t0 = time.time()
    p = subprocess.Popen(argv, stdout=subprocess.PIPE, stderr=subprocess.PIPE, env=env, preexec_fn=_limits(job.cpu),
                         cwd=ROOT)
    timed_out = False
    try:
        out, err = p.communicate(timeout=wall)
    except subprocess.TimeoutExpired:
        # the wall-clock watchdog fired. That is a verdict only if every thread of the process group is blocked (a deadlock takes no
        # CPU time, so the CPU limit never fires); with runnable threads the machine was merely busy: inconclusive, never a violation
        timed_out = "blocked" if _group_blocked(p.pid) else "starved"
        try:
            os.killpg(p.pid, 9)
        except OSError:
            pass
        out, err = p.communicate()
    lines = []
    for l in out.decode("utf-8", "replace").splitlines():
        l = l.strip()
        if not l.startswith("{"):
            continue
        try:
            lines.append(json.loads(l))
        except ValueError:
            lines.append({"t": "garbled", "raw": l[:200]})
    return lines, p.returncode, err.decode("utf-8", "replace"), timed_out, time.time() - t0


def _case_index(case_id):
    try:
        return int(case_id.rsplit("|", 1)[1])
    except (IndexError, ValueError):
        return None


def run_job(job, exe, prop, seed, res, max_restarts=6):
    a, b = job.cases
    restarts = 0
    hangs = 0
    hang_retry = False
    while a < b:
        lines, rc, err, timed_out, wall = run_process(job, exe, prop, seed, (a, b))
        with res.lock:
            res.procs += 1
        done = False
        crash = None
        for d in lines:
            t = d.get("t")
            if t == "viol":
                d["job"] = job.label
                d["seed"] = seed
                d["jobobj"] = job
                props = str(d.get("prop", "")).split("+")
                if prop in props and props[0] != prop:
                    # reported under another property's oracle, but it also refutes this one: keep the key, under this property's name
                    d["key"] = prop + "/" + d["key"].split("/", 1)[1] + "[" + props[0] + "]"
                    d["prop"] = prop
                with res.lock:
                    (res.viols if prop in props else res.other).append(d)
            elif t == "stat":
                with res.lock:
                    res.stats.append(d)
            elif t == "sample":
                with res.lock:
                    res.samples.append(d)
            elif t == "crash":
                crash = d
            elif t == "done":
                done = True
        if done and rc == 0:
            return
        # the process died: sanitizer report, signal, terminate, CPU limit, or harness usage error
        if rc == 3 and not crash:
            with res.lock:
                res.inconclusive.append("harness refused its arguments: %s: %s" % (job.label, err[-300:]))
            return
        tag = _san_summary(err)
        case_id = crash.get("case") if crash else None
        what = crash.get("what") if crash else ("timeout" if timed_out else "exit:%s" % rc)
        if timed_out == "starved":
            # not a verdict: retried once, then reported as inconclusive
            if not hang_retry:
                hang_retry = True
                continue
            with res.lock:
                res.inconclusive.append("%s: wall-clock watchdog (%.0fs) fired twice while threads were still runnable: machine too busy" % (job.label, wall))
            return
        is_hang = bool(timed_out) or what == "SIGXCPU" or rc == -24 or rc == -9
        if is_hang and not hang_retry:
            # judge hangs on CPU time and only if they reproduce
            hang_retry = True
            continue
        logname = os.path.join(LOGS, prop, hashlib.sha1((job.label + str(a)).encode()).hexdigest()[:12] + ".err")
        with open(logname, "w") as f:
            f.write(err[-200000:])
        if is_hang and case_id is None:
            with res.lock:
                res.inconclusive.append("%s: no output within the time limit (wall %.0fs), no case recorded" % (job.label, wall))
            return
        kind = job.kind
        if case_id and case_id.count("|") >= 5:
            kind = case_id.split("|")[4]
        v = {"t": "viol", "prop": prop,
             "key": "%s/%s/%s" % (prop, kind, "hang" if is_hang else "crash:" + (tag or what)),
             "case": case_id or job.label, "step": crash.get("step") if crash else None,
             "msg": ("the process running this history " + (("made no progress with every thread blocked (twice, %.0f s each)" % wall if timed_out else "did not finish within %d s of CPU time (twice)" % job.cpu) if is_hang else
                     "died: %s%s" % (what, (" [" + tag + "]") if tag else ""))),
             "trace": [], "job": job.label, "seed": seed, "jobobj": job, "log": logname}
        with res.lock:
            res.viols.append(v)
            res.crashes.append(v)
        k = _case_index(case_id) if case_id else None
        restarts += 1
        hangs += 1 if is_hang else 0
        # every reproduced hang costs two CPU limits: after the second one the rest of the range is given up (the violation is reported)
        if k is None or restarts > max_restarts or hangs >= 2:
            return
        a = k + 1
        hang_retry = False


def load_known():
    findings, fixed = [], []
    if os.path.exists(KNOWN):
        for line in open(KNOWN):
            line = line.strip()
            if not line or line.startswith("#"):
                continue
            m = re.match(r"(finding|fixed):\s+property=(\S+)\s+key=(\S+)\s*(.*)", line)
            if not m:
                continue
            (findings if m.group(1) == "finding" else fixed).append((m.group(2), m.group(3), m.group(4)))
    return findings, fixed


def write_replay(prop, v):
    os.makedirs(os.path.join(REPLAYS, prop), exist_ok=True)
    h = hashlib.sha1((v["key"] + "|" + str(v.get("case"))).encode()).hexdigest()[:16]
    path = os.path.join(REPLAYS, prop, h + ".json")
    job = v.get("jobobj")
    rec = {k: v.get(k) for k in ("prop", "key", "case", "step", "msg", "trace", "seed", "log")}
    if job is not None:
        rec.update(harness=job.harness, config=job.cfg, sanitizer=job.flavour, group=job.group, kind=job.kind,
                   ops=job.ops, extra=job.extra, defines=list(job.defines), link=list(job.link), env=job.env, cpu=job.cpu)
        k = _case_index(v.get("case") or "")
        rec["case_index"] = k
    with open(path, "w") as f:
        json.dump(rec, f, indent=1)
    return path


def validate_evidence(ev):
    """Small built-in check of the evidence shape (python3 here has no jsonschema)."""
    for k in ("property_id", "tier", "seed", "level", "coverage", "wall_s"):
        if k not in ev:
            raise ValueError("evidence lacks " + k)
    if ev["tier"] not in ("quick", "thorough"):
        raise ValueError("tier")
    if not isinstance(ev["seed"], int):
        raise ValueError("seed")
    c = ev["coverage"]
    if ev["level"] in ("exploration", "fault_enumeration"):
        if not (isinstance(c.get("evaluations"), int) and c["evaluations"] >= 1):
            raise ValueError("evaluations")
        if not (isinstance(c.get("distinct_nontrivial"), int) and c["distinct_nontrivial"] >= 2):
            raise ValueError("distinct_nontrivial < 2")
        if not isinstance(c.get("rule"), str):
            raise ValueError("rule")
        if not (isinstance(c.get("samples"), list) and len(c["samples"]) >= 1):
            raise ValueError("samples")


def write_evidence(prop, ev):
    os.makedirs(EVIDENCE, exist_ok=True)
    path = os.path.join(EVIDENCE, prop + ".json")
    try:
        validate_evidence(ev)
    except ValueError as e:
        ev.setdefault("coverage", {})["evidence_problem"] = str(e)
    tmp = path + ".tmp"
    with open(tmp, "w") as f:
        json.dump(ev, f, indent=1, sort_keys=True)
    os.rename(tmp, path)
    return path


def run_plan(prop, plan, tier, seed, replay=None):
    """plan: dict(jobs=[Job], level=, rule=, assumptions=[..], minima={event: n}, explain=str, post=callable(res)->extra coverage)
    Returns exit code."""
    t0 = time.time()
    jobs = plan["jobs"]
    try:
        exes = build.build_all([j.spec() for j in jobs])
    except build.BuildError as e:
        print("INCONCLUSIVE property=%s reason=build-failed: %s" % (prop, e))
        sys.stdout.write(e.log[-4000:] + "\n")
        return 2
    res = Result()
    workers = int(os.environ.get("VERIF_JOBS", "16"))
    with ThreadPoolExecutor(max_workers=workers) as ex:
        list(ex.map(lambda j: run_job(j, exes[j.spec()], prop, seed, res), jobs))
    return conclude(prop, plan, tier, seed, res, t0)


def conclude(prop, plan, tier, seed, res, t0, extra_cov=None):
    findings, fixed = load_known()
    cases = sum(s.get("cases", 0) for s in res.stats)
    sigs = set()
    events = {}
    for s in res.stats:
        sigs.update(s.get("sig", []))
        for k, v in s.get("events", {}).items():
            events[k] = events.get(k, 0) + v
    # distinct violations by key
    bykey = {}
    for v in res.viols:
        bykey.setdefault(v["key"], []).append(v)
    unknown, known = [], []
    for key, vs in sorted(bykey.items()):
        hit = None
        for (p, pat, text) in findings:
            if p == prop and fnmatch.fnmatchcase(key, pat):
                hit = (pat, text)
                break
        (known if hit else unknown).append((key, vs, hit))
    for key, vs, hit in known:
        print("KNOWN-FINDING: property=%s key=%s %s (%d occurrences this run)" % (prop, key, hit[1], len(vs)))
    for key, vs, _ in unknown:
        v = vs[0]
        path = write_replay(prop, v)
        print("violation of %s: %s" % (prop, key))
        print("  case %s step %s: %s" % (v.get("case"), v.get("step"), v.get("msg")))
        if v.get("trace"):
            print("  last operations: " + " ; ".join(v["trace"][-8:]))
        if v.get("log"):
            print("  sanitizer/stderr log: " + v["log"])
        print("  (%d occurrences)" % len(vs))
        print("VIOLATION property=%s replay=%s" % (prop, path))
    otherkeys = sorted(set((v.get("prop"), v["key"]) for v in res.other))
    for p, k in otherkeys[:20]:
        print("note: while checking %s a violation of %s was observed (%s); run ./check %s" % (prop, p, k, p))
    # observation minima
    short = []
    for ev, need in plan.get("minima", {}).items():
        got = cases if ev == "cases" else (len(sigs) if ev == "distinct_nontrivial" else events.get(ev, 0))
        if got < need:
            short.append("%s=%d<%d" % (ev, got, need))
    cov = {
        "evaluations": cases,
        "distinct_nontrivial": len(sigs),
        "rule": plan["rule"],
        "samples": [{"case": s.get("case"), "flags": s.get("flags"), "ops": s.get("ops")} for s in res.samples[:6]],
        "events": events,
        "processes": res.procs,
        "configs": sorted(set(j.cfg for j in plan["jobs"])),
        "sanitizers": sorted(set(j.flavour for j in plan["jobs"])),
        "kinds": sorted(set(j.kind for j in plan["jobs"])),
        "violation_keys": sorted(bykey.keys()),
        "known_findings_matched": [k for k, _, _ in known],
        "other_property_violations_seen": ["%s:%s" % pk for pk in otherkeys],
        "minima": plan.get("minima", {}),
        "inconclusive_reasons": res.inconclusive[:10],
    }
    for k, evname in plan.get("cov_from_events", {}).items():
        cov["cases"] = cases
        cov["distinct_case_signatures"] = len(sigs)
        cov[k] = events.get(evname, 0)
    if plan.get("exhaustive"):
        cov["exhaustive"] = True
    if extra_cov:
        cov.update(extra_cov)
    ev = {"property_id": prop, "tier": tier, "seed": int(seed), "level": plan["level"], "coverage": cov,
          "assumptions": plan.get("assumptions", []), "wall_s": round(time.time() - t0, 2),
          "violations": len(unknown)}
    write_evidence(prop, ev)
    print("%s %s seed=%s: %d cases (%d distinct non-trivial), %d processes, %.1fs; events: %s" % (
        prop, tier, seed, cases, len(sigs), res.procs, time.time() - t0,
        ", ".join("%s=%d" % kv for kv in sorted(events.items())[:14])))
    if unknown:
        return 1
    if res.inconclusive or short:
        for r in res.inconclusive[:5]:
            print("INCONCLUSIVE property=%s reason=%s" % (prop, r))
        if short:
            print("INCONCLUSIVE property=%s reason=observation minima not met: %s" % (prop, " ".join(short)))
        return 2
    print("HELD property=%s on everything explored" % prop)
    return 0


def replay(prop, path):
    rec = json.load(open(path))
    job = Job(rec["harness"], rec["config"], rec["sanitizer"], rec["group"], rec["kind"],
              (rec.get("case_index") or 0, (rec.get("case_index") or 0) + 1), ops=rec.get("ops"), extra=rec.get("extra", ()),
              defines=rec.get("defines", ()), link=rec.get("link", ()), cpu=rec.get("cpu", 120), env=rec.get("env"))
    try:
        exes = build.build_all([job.spec()])
    except build.BuildError as e:
        print("INCONCLUSIVE property=%s reason=build-failed: %s" % (prop, e))
        return 2
    lines, rc, err, timed_out, wall = run_process(job, exes[job.spec()], prop, rec["seed"], job.cases, verbose=True)
    seen = False
    for d in lines:
        if d.get("t") == "op":
            print("  %4d %s" % (d["step"], d["op"]))
        elif d.get("t") in ("viol", "crash"):
            seen = True
            print(json.dumps(d)[:2000])
    if err.strip():
        print(err[-6000:])
    print("replay: exit=%s timed_out=%s reproduced=%s" % (rc, timed_out, seen or rc != 0))
    if seen or rc != 0 or timed_out:
        print("VIOLATION property=%s replay=%s" % (prop, path))
        return 1
    return 0
