"""Warm the build cache: every (harness, config, flavour) the quick tier of a registered check needs."""
import sys
import time

from . import build, plans


def main():
    t = time.time()
    specs = []
    for prop, mk in sorted(plans.PLANS.items()):
        plan = mk("quick", 1)
        for j in plan.get("jobs", []):
            specs.append(j.spec())
        specs.extend(plan.get("extra_builds", []))
    specs = list(dict.fromkeys(specs))
    try:
        build.build_all(specs)
    except build.BuildError as e:
        print("setup: build failed: %s" % e)
        print(e.log[-3000:])
        return 1
    print("setup: %d harness variants ready in %.0fs (tree %s)" % (len(specs), time.time() - t, build.tree_hash()))
    return 0


if __name__ == "__main__":
    sys.exit(main())
