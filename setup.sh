#!/bin/sh
# setup_cmd: warms the build cache for the current /repo tree (libraries for the variants the quick tier uses and the harnesses).
# Everything is built from files on disk; nothing is fetched.
cd "$(dirname "$0")" || exit 1
exec python3 -m vlib.setup
