#!/usr/bin/env python3
"""Writes MANIFEST.json from the table below and the plans registered in vlib/plans.py."""
import json
import os
import subprocess
import sys

ROOT = os.path.dirname(os.path.dirname(os.path.abspath(__file__)))
sys.path.insert(0, ROOT)
from vlib import plans  # noqa: E402

LEVEL_TEXT = {
    "C01": ("exploration", "5 C01", "shadow heap (unique byte pattern per live allocation, interval map) + instrumented upstream with canaries + ASan/UBSan over seeded histories",
            "Held on the seeded histories produced (tens of thousands per run, three generator modes, every allocator kind x block source, allocator object placed below/above/beside its memory, 3-5 debug configurations). Overlap, memory outside upstream blocks and any changed byte of a live allocation are observed directly; nothing is proved for histories not generated."),
    "C02": ("exploration", "5 C02", "alignment / usable-size clauses of the shadow heap over histories with exactly-as-aligned-as-requested upstream blocks, ASan/UBSan",
            "Every returned pointer is checked modulo the requested alignment and all count*size bytes are written and read back; upstream blocks are aligned exactly as requested and not more, so over-alignment assumptions surface. Exploration over seeded sizes/alignments (to 512 on stack-like allocators, page size on virtual memory) in fence-0/8/16 configurations."),
    "C04": ("exploration", "5 C04", "capacity conservation monitors (release delta, empty-point monotonicity, drain count, 6-30x cycle test) on pools and collections over an instrumented block source",
            "capacity_left()/pool_capacity_left() are read around every operation and compared with what the operation took (ceil(bytes/node) nodes); at every point with nothing live the capacity must not have shrunk; node requests with a free node must not reach the block source; recorded allocate/release cycles must stop acquiring blocks after the second repetition."),
    "C05": ("exploration", "5 C05", "online checker over the instrumented upstream's call log (known block, exactly once, same address/size/alignment, LIFO, balance at destruction, cache model for memory_stack)",
            "Every release arriving at the probe is checked against its acquisition record and against LIFO order; balance is checked at destruction, after move assignment and at the end of each case; a model of cached/used blocks decides whether an upstream request was allowed."),
    "C06": ("exploration", "5 C06", "marker/unwind oracle on memory_stack: capacity equality, replay address equality, pattern checks, six-operator marker order, no upstream release on unwind",
            "After unwind(m): capacity_left() equals the recorded value, the requests that followed m are re-issued and must return the same addresses (while no shrink_to_fit happened), older allocations keep their patterns, younger ones are verified right before they die. All pairs of live markers are compared with the six operators."),
    "C07": ("exploration", "5 C07", "iteration-tagged shadow heap on iteration_allocator<1..5> with block sizes not divisible by N",
            "Allocations are tagged with the iteration they were made in; they are verified immediately before the switch that recycles their region and everything else after it; capacity after a switch must equal the region's empty capacity; the N region capacities must not exceed the block."),
    "C03": ("fault_enumeration", "5 C03", "upstream failpoint at every call index of a recorded history + requests around the reported maxima, outcome classified by exception type and handler counters",
            "For each scenario the upstream fails at call k for every k (quick: k <= 12 plus samples); the exception must derive from std::bad_alloc, the matching handler must have run, earlier allocations stay intact (shadow heap), the same request succeeds afterwards, nothing leaks. Requests around max_node_size/max_array_size/max_alignment must throw the right family or return null from try_, never null from throwing functions, and try_ never reaches the upstream."),
    "C08": ("exploration", "5 C08", "foreign-pointer offers between sibling allocators with adjacent blocks (incl. an allocation starting exactly one past a block's end) + per-leaf release logs under fallback/segregator compositions",
            "Every live allocation is offered to every allocator that did not hand it out (must return false, capacity figures and patterns unchanged) and to its owner (must return true). Compositions up to depth 3 are driven until the default allocator spills into the fallback and drains again; each instrumented leaf verifies that its memory comes back to it once with the shape of its own allocation."),
    "C09": ("exploration", "5 C09", "call log of an instrumented leaf under 22 wrapper compositions (exactly one leaf request per request, release mirrors the leaf allocation) + tracker callback log",
            "For each composition every top-level request must appear at the leaf as one allocation with at least the bytes/alignment asked for, and every release as one release on the same leaf with the kind/count/size/alignment of that leaf allocation; tracker callbacks are counted and their shape compared."),
    "C10": ("exploration", "5 C10", "per-allocator call logs of two instrumented RawAllocators under seeded container programs, differential contents against std::allocator containers, equality vs probing allocation, measured node sizes vs X_node_size<T>",
            "Seeded programs over pairs of containers (11 container kinds, typed and type-erased std_allocator) bound to the same or different allocator objects; a release on the wrong allocator, unbalanced logs, differing contents or an operator== that contradicts where the allocators really allocate are violations. Node size constants are compared with measured requests for a grid of element types and then exercised on a real pool."),
    "C11": ("exploration", "5 C11", "address-range monitor for joint members against the upstream block + release-shape check + exact-fit / one-short requests",
            "All member addresses of seeded joint layouts are checked to lie behind the object inside its single upstream block, disjoint and aligned; one byte less than needed must throw out_of_fixed_memory; reset/destruction must release the block in one call with its allocation parameters; clones must be equal and independent."),
    "C20": ("fault_enumeration", "5 C20", "constructor failure injected at every element index, live-object ledger + upstream balance",
            "Every helper and every joint_array constructor form is run with the k-th element construction throwing, for every k; constructed elements must be destroyed exactly once, memory returned, the exception unchanged, and the allocator (and the joint memory) usable again."),
    "C12": ("exploration", "5 C12", "C01/C05/C15 oracles continued across move construction, move assignment (fresh and used targets) and swap inserted into histories",
            "Moves are inserted at seeded positions; afterwards old pointers are released through the new owner, the moved-from object is destroyed, the target's former blocks must be back at its own block source, the leak handler must stay silent; crashes/hangs/assertion aborts of the moved-from object are violations."),
    "C13": ("exploration", "5 C13", "instrumented mutex (owner, contention) + instrumented allocator (owner check and in-flight counter on every member, delays inside) under 2-16 threads; ThreadSanitizer on real allocators behind std::mutex and on stateless allocators",
            "Every forwarding member of allocator_storage and the lock() proxy is called from several threads; each entry into the wrapped allocator must find the mutex held by the calling thread and nobody else inside. Real pools/collections/stacks behind std::mutex run per-thread patterns under ThreadSanitizer; wrapping a stateless allocator must take no lock. Evidence reports entries per member and contended acquisitions."),
    "C14": ("exploration", "5 C14", "token scheduler over guarded scheduling points of the temporary stack list + offline ownership-interval checker over the event log; ThreadSanitizer free runs; exit-time child processes; scope replay",
            "Interleavings of 2-4 threads over the 12 scheduling points are enumerated by a seeded scheduler (distinct point sequences counted); an offline checker over the call/return event log decides that no stack is held by two live threads and that stacks are reused (count <= peak live threads). Children check that nothing is reported as leaked at exit; nested scopes are checked by replay equality."),
    "C15": ("exploration", "5 C15", "recording leak handler compared with a model of traits-level net bytes at every destruction",
            "At each destruction the handler must have been called exactly once with the model's net amount if non-zero and not at all if zero; moved-from objects must report nothing."),
    "C16": ("fault_enumeration", "5 C16", "one child process per invalid release, outcome classified (handler / abort / fatal signal / continued); counting handlers on valid histories",
            "Every bad-call class the configuration's checks cover is driven after a seeded valid prefix, each in its own child; 'continued' is a violation. Valid histories in every configuration run with counting handlers that must stay zero."),
    "C17": ("fault_enumeration", "5 C17", "single-byte fence corruption sweep with a recording overflow handler; fill-pattern checks in the shadow heap",
            "Every fence offset (edges + sample for page-sized fences) x several non-pattern values is corrupted on a fresh allocation of each low-level allocator; the handler must be called once with the exact address; in-bounds writes never. Fresh allocations must carry the new-memory pattern, released pool nodes the freed pattern."),
    "C18": ("exploration", "5 C18", "min_block_size grid over a counting upstream + capacity-delta model in histories",
            "For the tier's grid of (pool type, node size, node count) a pool built with min_block_size must hold the nodes in one block and grow by next_capacity(); capacity figures are compared with a model around every operation of the histories."),
    "C19": ("exploration", "5 C19", "differential testing against definitional reference implementations (loops, 128-bit arithmetic) under UBSan",
            "Complete small domain (1..65536 x 64 alignments), all boundary classes 2^k+-64, seeded 64-bit samples, bucket selection for every size up to the maximum for all list types and both distributions."),
}
NOTE = "Trusted base: the harness's probes/shadow heap/models, gcc 12 sanitizer runtimes, the PRNG-driven generators respecting the documented preconditions (DESIGN.md section 5). Only executions produced on this Linux/x86-64/libstdc++ image are decided."


def main():
    props = [json.loads(l) for l in open(os.path.join(ROOT, "properties.jsonl"))]
    try:
        commits = subprocess.check_output(["git", "-C", "/repo", "log", "--format=%h %s", "--grep=^hook:"], text=True).split("\n")
        hook_commits = [c.split()[0] for c in commits if c.strip()]
    except Exception:
        hook_commits = []
    checks = []
    na = []
    for p in props:
        pid = p["id"]
        if pid in plans.PLANS and pid in LEVEL_TEXT:
            cat, ref, tech, text = LEVEL_TEXT[pid]
            checks.append({
                "property_id": pid,
                "quick_cmd": "./check %s --tier quick" % pid,
                "thorough_cmd": "./check %s --tier thorough" % pid,
                "evidence_file": "/verif/evidence/%s.json" % pid,
                "replay_cmd_template": "./check %s --replay {path}" % pid,
                "engine": "check",
                "level_claimed": {"category": cat, "text": text, "design_ref": "DESIGN.md section " + ref},
                "level_note": NOTE,
                "technique": "runtime monitoring: " + tech,
            })
        else:
            na.append({"property_id": pid, "reason": NA_REASON.get(pid, "check under construction in this round (DESIGN.md section 11); not claimed until it has been silent over several seeds and has caught a seeded break")})
    m = {"version": 1, "setup_cmd": "./setup.sh",
         "hooks": {"guard": "FOONATHAN_MEMORY_VERIF",
                   "enable": "-DFOONATHAN_MEMORY_VERIF on every library and harness compile done by vlib/build.py (the library is rebuilt from /repo's working tree for each configuration x sanitizer)",
                   "baseline_off_cmd": "cmake --build /repo/_build && ctest --test-dir /repo/_build -j8 --timeout 900",
                   "source_commits": hook_commits, "add_only": True},
         "engines": [{"name": "check", "path": "/verif/check", "serves_properties": [c["property_id"] for c in checks],
                      "kind_free_text": "python3 driver (vlib/): builds library + harness per configuration and sanitizer from /repo's working tree, fans seeded cases out over 16 cores, classifies process outcomes (violation lines, sanitizer reports, signals, CPU-time hangs), matches known findings, writes replay and evidence files"}],
         "checks": checks,
         "notes": "Runtime monitoring and sanitizers only; see DESIGN.md. Exit 0 held / 1 VIOLATION / 2 inconclusive. VERIF_SEED and VERIF_TIER are honoured.",
         "not_applicable": na}
    with open(os.path.join(ROOT, "MANIFEST.json"), "w") as f:
        json.dump(m, f, indent=1)
    print("manifest: %d checks, %d not claimed" % (len(checks), len(na)))


NA_REASON = {}

if __name__ == "__main__":
    main()
