#!/usr/bin/env python3
"""Runs every kept seeded change against the current harness: scratch worktree of /repo HEAD, patch applied, the property's quick check
with VERIF_REPO pointing there (tools/mutant.py without --confirm). Writes seeded/<id>/final_check.json and seeded/RESULTS.md."""
import glob
import json
import os
import subprocess
import sys
from concurrent.futures import ThreadPoolExecutor

ROOT = os.path.dirname(os.path.dirname(os.path.abspath(__file__)))
only = sys.argv[1].split(",") if len(sys.argv) > 1 else None
workers = int(os.environ.get("RECHECK_WORKERS", "4"))
dirs = sorted(glob.glob(os.path.join(ROOT, "seeded", "C*-*")), key=lambda d: (d.split("/")[-1].split("-")[0], int(d.split("-")[-1])))
if only:
    dirs = [d for d in dirs if os.path.basename(d) in only or os.path.basename(d).split("-")[0] in only]


def run(d):
    key = os.path.basename(d)
    pid = key.split("-")[0]
    out = os.path.join(d, "final_check.json")
    if os.path.exists(out) and not os.environ.get("RECHECK_FORCE"):
        return
    p = subprocess.run([sys.executable, os.path.join(ROOT, "tools", "mutant.py"), os.path.join(d, "patch.diff"), "re_" + key.replace("-", "_"), "--props", pid],
                       stdout=subprocess.PIPE, stderr=subprocess.STDOUT, text=True, env=dict(os.environ, VERIF_COMPILE_JOBS="6"))
    last = [l for l in p.stdout.splitlines() if l.startswith("{")]
    rec = json.loads(last[-1]) if last else {"error": p.stdout[-400:]}
    c = rec.get("checks", {}).get(pid, {"error": rec.get("error", "no result")})
    json.dump({"property": pid, "check": c}, open(out, "w"), indent=1)
    print(key, c.get("exit"), c.get("keys", [])[:2], flush=True)


with ThreadPoolExecutor(max_workers=workers) as ex:
    list(ex.map(run, dirs))
rows = []
n = caught = 0
for d in sorted(glob.glob(os.path.join(ROOT, "seeded", "C*-*")), key=lambda d: (d.split("/")[-1].split("-")[0], int(d.split("-")[-1]))):
    f = os.path.join(d, "final_check.json")
    if not os.path.exists(f):
        continue
    r = json.load(open(f))["check"]
    n += 1
    caught += r.get("exit") == 1
    rows.append("| %s | %s | %s |" % (os.path.basename(d), {1: "reported", 0: "NOT reported", 2: "inconclusive"}.get(r.get("exit"), "error"),
                                     ", ".join("`%s`" % k for k in r.get("keys", [])[:3])))
open(os.path.join(ROOT, "seeded", "RESULTS.md"), "w").write(
    "# Every kept seeded change against the final harness\n\n%d of %d reported by the quick check of their property (tools/recheck_seeded.py).\n\n"
    "| change | verdict | first violation keys |\n|---|---|---|\n" % (caught, n) + "\n".join(rows) + "\n")
print("reported", caught, "of", n)
