#!/usr/bin/env python3
"""Evaluate a seeded change: tools/mutant.py <patch.diff> <name> [--props C01,C04] [--confirm demo.cpp] [--tier quick]
1. scratch worktree of /repo HEAD under /tmp/mutrun/<name>, patch applied;
2. --confirm: builds the repository's own tests there (must pass) and the demonstration with and without the patch;
3. runs the given checks with VERIF_REPO pointing at the scratch tree (evidence/replays/logs redirected), prints which ones report a violation;
4. removes the worktree and its build cache."""
import argparse
import json
import os
import shutil
import subprocess
import sys
import time

ROOT = os.path.dirname(os.path.dirname(os.path.abspath(__file__)))


def sh(cmd, cwd=None, env=None, timeout=3600):
    p = subprocess.run(cmd, cwd=cwd, env=env, shell=isinstance(cmd, str), stdout=subprocess.PIPE, stderr=subprocess.STDOUT, text=True, timeout=timeout)
    return p.returncode, p.stdout


def build_tests(tree, bdir, btype="RelWithDebInfo", cxxflags=""):
    rc, out = sh("cmake -G Ninja -S . -B %s -DCMAKE_BUILD_TYPE=%s %s -DFETCHCONTENT_TRY_FIND_PACKAGE_MODE=ALWAYS >/dev/null && cmake --build %s -j 6 2>&1 | tail -3"
                 % (bdir, btype, ("-DCMAKE_CXX_FLAGS=" + cxxflags) if cxxflags else "", bdir), cwd=tree)
    return rc, out


def demo(tree, bdir, src, exe, flags=""):
    lib = [f for f in os.listdir(os.path.join(tree, bdir, "src")) if f.startswith("libfoonathan_memory") and f.endswith(".a")][0]
    rc, out = sh("g++ -std=gnu++17 -g -O1 %s -I %s/src -I include -I include/foonathan/memory %s %s/src/%s -lpthread -o %s" % (flags, bdir, src, bdir, lib, exe), cwd=tree)
    if rc != 0:
        return None, out[-1500:]
    try:
        rc, out = sh("./" + exe, cwd=tree, timeout=120)
    except subprocess.TimeoutExpired:
        return 124, "timeout"
    return rc, out[-600:]


def main():
    ap = argparse.ArgumentParser()
    ap.add_argument("patch")
    ap.add_argument("name")
    ap.add_argument("--props", default="")
    ap.add_argument("--confirm", default="")
    ap.add_argument("--tier", default="quick")
    ap.add_argument("--seed", default="1")
    ap.add_argument("--keep", action="store_true")
    a = ap.parse_args()
    base = "/tmp/mutrun"
    os.makedirs(base, exist_ok=True)
    tree = os.path.join(base, a.name)
    sh(["git", "-C", "/repo", "worktree", "remove", "--force", tree])
    rc, out = sh(["git", "-C", "/repo", "worktree", "add", "-q", "--detach", tree, "HEAD"])
    if rc:
        print("worktree failed", out)
        return 2
    result = {"name": a.name, "patch": a.patch}
    try:
        if a.confirm:
            # each build flavour: demo on the unchanged tree must pass, with the patch the tests must pass and the demo must fail
            flavours = [("RelWithDebInfo", "", ""), ("Debug", "", ""), ("RelWithDebInfo", "-fsanitize=thread", "-fsanitize=thread"),
                        ("RelWithDebInfo", "-fsanitize=address,undefined", "-fsanitize=address,undefined")]
            result["confirm"] = []
            confirmed = False
            for i, (bt, cxx, dflags) in enumerate(flavours):
                sh(["git", "checkout", "--", "."], cwd=tree)
                rc, out = build_tests(tree, "b0", bt, cxx)
                r0, o0 = demo(tree, "b0", a.confirm, "demo0", dflags)
                rc, out = sh(["git", "apply", os.path.abspath(a.patch)], cwd=tree)
                if rc:
                    print("patch does not apply:", out)
                    return 2
                rc, out = build_tests(tree, "b1", bt, cxx)
                builds = rc == 0
                rc, out = sh("./b1/test/foonathan_memory_test | tail -3", cwd=tree)
                tests = "SUCCESS" in out
                r1, o1 = demo(tree, "b1", a.confirm, "demo1", dflags)
                rec = {"build": bt + (" " + cxx if cxx else ""), "builds_with_patch": builds, "tests_pass_with_patch": tests,
                       "demo_exit_without_patch": r0, "demo_exit_with_patch": r1, "demo_output_with_patch": (o1 or "")[-200:]}
                result["confirm"].append(rec)
                shutil.rmtree(os.path.join(tree, "b0"), ignore_errors=True)
                shutil.rmtree(os.path.join(tree, "b1"), ignore_errors=True)
                if builds and tests and r0 == 0 and r1 not in (0, None):
                    confirmed = True
                    break
                if i == 0 and not (builds and tests):
                    break  # the baseline configuration's own suite must pass with the change
            result["confirmed"] = confirmed
            sh(["git", "checkout", "--", "."], cwd=tree)
            sh(["git", "apply", os.path.abspath(a.patch)], cwd=tree)
        else:
            rc, out = sh(["git", "apply", os.path.abspath(a.patch)], cwd=tree)
            if rc:
                print("patch does not apply:", out)
                return 2
        props = [p for p in a.props.split(",") if p]
        env = dict(os.environ)
        env.update(VERIF_REPO=tree, VERIF_EVIDENCE_DIR=os.path.join(tree, "_ev"), VERIF_REPLAY_DIR=os.path.join(tree, "_rp"),
                   VERIF_LOG_DIR=os.path.join(tree, "_lg"), VERIF_SEED=a.seed)
        result["checks"] = {}
        for p in props:
            t = time.time()
            rc, out = sh([os.path.join(ROOT, "check"), p, "--tier", a.tier], env=env, timeout=7200)
            keys = [l.split(": ", 1)[1] for l in out.splitlines() if l.startswith("violation of")]
            inc = [l for l in out.splitlines() if l.startswith("INCONCLUSIVE")]
            result["checks"][p] = {"exit": rc, "keys": keys[:6], "inconclusive": inc[:2], "s": round(time.time() - t)}
            print("%s: check %s exit=%d %ds %s %s" % (a.name, p, rc, time.time() - t, keys[:3], inc[:1]), flush=True)
    finally:
        # build cache of the scratch tree
        try:
            env2 = dict(os.environ, VERIF_REPO=tree)
            rc, out = sh([sys.executable, "-c", "import sys; sys.path.insert(0, %r); from vlib import build; print(build.tree_hash())" % ROOT], env=env2)
            h = out.strip().splitlines()[-1] if out.strip() else ""
            if len(h) == 16 and not a.keep:
                shutil.rmtree(os.path.join(ROOT, "build", h), ignore_errors=True)
        except Exception:
            pass
        if not a.keep:
            sh(["git", "-C", "/repo", "worktree", "remove", "--force", tree])
    print(json.dumps(result))
    return 0


if __name__ == "__main__":
    sys.exit(main())
