#!/usr/bin/env python3
"""Runs every registered check (quick or thorough) for a list of seeds and prints one line per run."""
import json
import os
import subprocess
import sys
import time

ROOT = os.path.dirname(os.path.dirname(os.path.abspath(__file__)))
tier = sys.argv[1] if len(sys.argv) > 1 else "quick"
seeds = [int(x) for x in (sys.argv[2].split(",") if len(sys.argv) > 2 else ["1"])]
props = sys.argv[3].split(",") if len(sys.argv) > 3 else [c["property_id"] for c in json.load(open(os.path.join(ROOT, "MANIFEST.json")))["checks"]]
bad = 0
for seed in seeds:
    for p in props:
        t = time.time()
        r = subprocess.run([os.path.join(ROOT, "check"), p, "--tier", tier, "--seed", str(seed)], stdout=subprocess.PIPE, stderr=subprocess.STDOUT, text=True)
        lines = [l for l in r.stdout.splitlines() if l.startswith(("VIOLATION", "INCONCLUSIVE", "KNOWN-FINDING", "violation of"))]
        print("%s seed=%d tier=%s exit=%d %.0fs %s" % (p, seed, tier, r.returncode, time.time() - t, " | ".join(x[:160] for x in lines[:4])), flush=True)
        if r.returncode != 0:
            bad += 1
print("runs with non-zero exit:", bad)
