#!/usr/bin/env python3
"""Copies confirmed seeded changes from /tmp/mut/<ID>/out into /verif/seeded/<ID>-<n>/ with meta.json (from /tmp/mut/results.jsonl)."""
import json
import os
import shutil
import sys

ROOT = os.path.dirname(os.path.dirname(os.path.abspath(__file__)))
NEEDS = {
    "C01-1": "ordered free list: allocate(n) with '<' instead of '<=' against the cached deallocation position: an array that starts exactly at the most recently freed node leaves the cache pointing into the live array; a later single-node release between the front free node and that array writes a link into live memory. Needs: free X+1, free X, allocate_array(2) -> [X,X+1], free a node in front.",
    "C01-2": "memory_stack::allocate growth path: the new block becomes current in the arena before the size checks, stack_ is switched after them; a request above next_capacity() throws bad_allocation_size with the arena and the stack pointing at different blocks; later allocations run past the old block. Needs: an oversized request (exception caught) followed by further allocations.",
    "C02-1": "memory_stack::allocate recomputes the alignment offset after growth without the fence: first allocation in a fresh block misaligned by the fence size. Needs: debug fences, growth, alignment >= 16.",
    "C02-2": "unordered list_search_array keeps bytes_so_far across a gap: an array handed out 1+ nodes short, its tail nodes stay on the free list. Needs: release build (unordered node list), fragmented free list with a short run before a non-adjacent node, array of >= 3 nodes.",
    "C03-1": "memory_stack growth check drops the alignment offset: an over-aligned request close to next_capacity() is served running past the block end instead of bad_allocation_size. Needs: growth, alignment > 16 (>= 16 with fences), size within alignment-1 of the block capacity.",
    "C03-2": "growing_block_allocator doubles block_size_ before the upstream call: a failed growth changes next_capacity() and the retry asks for twice as much. Needs: upstream failure exactly at a growth call, then a query or a retry.",
    "C04-1": "unordered list_search_array sets prev = first instead of last on restart: unlinking the found run also cuts the nodes of the abandoned short run out of the list, capacity over-reports. Needs: release build, array request with a too-short run of >= 2 adjacent nodes before a fitting run.",
    "C04-2": "collection try_allocate_array requests count * pool.node_size() bytes but release gives back count * node_size: each try_ array cycle with an element smaller than the bucket's node loses nodes. Needs: composable array path, element size below bucket node size.",
    "C05-1": "~memory_arena pops the used blocks before shrink_to_fit(): older blocks go back while younger cached ones are outstanding (not LIFO). Needs: destruction of a cached arena / memory_stack with used and cached blocks.",
    "C05-2": "swap(memory_arena) no longer swaps the cache base: cached blocks are returned to the wrong block source / released at once. Needs: swap or move assignment of cached arenas / stacks while one holds a cached block.",
    "C06-1": "memory_stack::unwind releases n-1 blocks when crossing n >= 2 block boundaries. Needs: one unwind across two or more boundaries.",
    "C06-2": "same change as C05-2 seen through memory_stack move assignment: cached blocks freed immediately, replay addresses differ, shrink_to_fit releases nothing.",
    "C07-1": "iteration_allocator::block_end rounds up while block_start rounds down: neighbouring regions share one byte. Needs: size % N != 0, a region filled to its last byte, then the next region's first allocation; fence-0 configurations only.",
    "C07-2": "iteration_allocator::allocate bounds check rearranged so that it underflows when fewer than 2*fence bytes would remain: memory reaching into the next region. Needs: debug fences, throwing allocate(), request within 16 bytes of capacity_left().",
    "C08-1": "memory_pool composable array limit checks use capacity_left() instead of max_array_size(): try_deallocate_array refuses the pool's own array when the pool is nearly full. Needs: composable array release while fewer free bytes than the array remain.",
    "C08-2": "memory_block::contains inclusive at the end: iteration_allocator accepts a sibling's node that starts exactly one past its block. Needs: adjacent storages and the sibling's very first byte.",
    "C09-1": "aligned_allocator move assignment drops min_alignment_: blocks released with a smaller alignment than requested, new requests under-aligned. Needs: two aligned_allocators with different minimum alignment, move assignment, then release/allocation.",
    "C09-2": "tracked_allocator::try_deallocate_array reports to the tracker if (ptr) instead of if (res). Needs: composable path, array served by the fallback, its release through the composition.",
    "C10-1": "type-erased target() returns nullptr for every stateless allocator: any_std_allocators over different stateless allocator types compare equal. Needs: two different stateless RawAllocator types behind any_std_allocator and an equality-dependent operation.",
    "C10-2": "allocate_unique<T[]> failure guard uses the scalar deallocator: on a throwing element constructor the array is released as one node. Needs: n > 1, throwing default constructor, allocator that distinguishes node from array.",
    "C11-1": "joint_array range constructor constructs the element before bumping the joint stack: with exactly one element more than fits, it is written past the block before out_of_fixed_memory. Needs: iterator-range form, capacity for k elements, k+1 given.",
    "C11-2": "joint_ptr move assignment no longer transfers the allocator reference: the block is released through the wrong allocator. Needs: move assignment between joint_ptrs bound to different allocator objects.",
    "C12-1": "ordered_free_memory_list move constructor writes both neighbour links with xor_list_set: with exactly one free node the node stays linked to the moved-from object's proxy. Needs: move of an array pool at the moment exactly one node is free, then use of the new owner.",
    "C12-2": "swap(static_block_allocator) does not swap block_size_. Needs: move assignment or swap between allocators/arenas with different block sizes.",
    "C13-1": "allocator_storage::try_deallocate_array: the lock_guard became a temporary (locks and unlocks at once). Needs: real mutex, stateful composable allocator, exactly this member.",
    "C13-2": "locked_allocator (lock() proxy) move constructor does not reset other.mutex_: the moved-from proxy unlocks too. Needs: the proxy actually moved and used afterwards.",
    "C14-1": "get_temporary_stack() no longer ODR-uses the thread exit detector: a thread that adopts a stack never releases it. Needs: >= 3 sequential threads without initializer.",
    "C14-2": "temporary_stack_list::clear marks the stack free before shrink_to_fit(): another thread adopts it while the old owner still purges it. Needs: a thread creating/initialising its stack while another runs clear().",
    "C15-1": "collection traits allocate_node counts on_allocate before the allocation that may throw. Needs: a throwing allocate_node (exhausted fixed source or bad size), caller carries on, destruction.",
    "C15-2": "memory_pool traits deallocate_array counts ceil(count*size/node)*node bytes while allocate counts count*size. Needs: array whose byte size is not a multiple of the node size.",
    "C16-1": "ordered list find_pos uses less_equal against last_dealloc_prev: a double free of the predecessor of the most recently freed node is linked silently. Needs: debug (double-free check), free(n2), free(n3), free(n2).",
    "C16-2": "static_block_allocator::allocate_block bumps cur_ before the capacity test: after one failed allocation every valid LIFO release is reported as invalid. Needs: exhausted static storage, exception caught, then a valid release.",
    "C17-1": "debug_is_filled word-at-a-time scan computes the tail length wrongly: the last start%8 bytes of an unaligned fence are not checked. Needs: node size not a multiple of 8, write confined to the last bytes of the trailing fence.",
    "C17-2": "lowlevel_allocator::deallocate_node checks debug_fence_size (8) bytes although 16 are written. Needs: fence 8 and a write into the far half of either fence.",
    "C18-1": "same mechanism as C03-2 (block size grown before the upstream call): next_capacity() doubles after a failed growth, later growth delivers another amount than announced.",
    "C18-2": "small_free_memory_list::insert drops a trailing chunk of exactly one node while usable_size() counts it: next_capacity() announces one node more than growth delivers; collections crash in insert_rest. Needs: usable block size = k*stride + header + node_size.",
    "C19-1": "alignment_for fast path returns max_alignment for every size >= 16. Needs: node size above 16 that is not a multiple of 16.",
    "C19-2": "free_list_array::get compares the size with the minimum index: log2 buckets for node/array lists return array_[-1] for size 4. Needs: log2 collection of node/array pools asked for size exactly 4.",
    "C20-1": "joint_array builder returns early when size_ == 0 (also the state after element 0 threw): joint memory not unwound. Needs: throw at element index 0, object kept alive, joint memory used again.",
    "C20-2": "allocator_deallocator<T[]> releases a length-1 array as a node. Needs: allocate_unique<T[]>(alloc, 1) with a throwing constructor on an allocator that distinguishes node from array.",
    "C01-3": "unordered list_search_array does not reset bytes_so_far on restart: a too-short run is accepted after two short runs, the array extends into a live neighbour. Needs: release build, fragmented node_pool, array of 3+ nodes.",
    "C01-4": "memory_pool traits deallocate_array forwards to the member (count nodes) while allocate takes ceil(count*size/node) nodes: surplus live nodes get free-list links and are handed out again. Needs: traits array release with element size below the node size.",
    "C02-3": "collection insert_rest pads the tail remainder by remaining % 16 instead of align_offset(top): nodes carved from the tail of a block whose size is not a multiple of 16 are misaligned. Needs: block size % 16 != 0, a block exhausted, 16-aligned node sizes.",
    "C02-4": "alignment_for fast path (>= 16 -> 16): pools/collections accept alignment 16 for node sizes like 24 and return nodes at node_size stride. Needs: node size above 16, not a multiple of 16, request with the (wrongly) reported max alignment.",
    "C03-3": "fallback_allocator::try_allocate_array calls the throwing fallback allocate_array: a try_ function grows the fallback or lets out_of_fixed_memory escape noexcept. Needs: composable array request on a fallback_allocator whose default cannot serve it.",
    "C03-4": "memory_stack::allocate: first size check moved before stack_ is switched to the new block: bad_allocation_size leaves arena and top in different blocks. Needs: oversized request forcing growth, then continued use.",
    "C04-3": "ordered list allocate(n) drops the update of last_dealloc_prev_ when the array ends at it: the next shortcut release writes into the live array and cuts nodes off. Needs: P | A0 A1 A2 | X free, array taking A0..A2, release between A2 and X.",
    "C04-4": "memory_pool private allocate_array skips the search when capacity() < n (n is the element count through the traits): grows although the needed nodes are free. Needs: traits array with element size below node size on a nearly exhausted pool.",
    "C05-3": "iteration_allocator move assignment guards the release of its own block by block_.memory instead of cur_ < N: a moved-from allocator assigned to returns a block that belongs to someone else (returned twice). Needs: c = move(a); a = move(b) while c lives.",
    "C05-4": "~temporary_allocator no longer unwinds before shrink_to_fit: blocks acquired during the scope stay cached although shrink_to_fit was requested. Needs: shrink_to_fit() on a temporary_allocator whose scope grew the stack.",
    "C06-3": "stack_marker operator< collapsed to index < || top <: markers in different blocks compare by raw address. Needs: a newer block at a lower address than an older one.",
    "C06-4": "memory_stack_raii_unwind move assignment does not disarm the source: the moved-from guard unwinds too. Needs: outer = std::move(inner) from an lvalue that dies before outer.",
    "C07-3": "next_iteration uses & (N-1) instead of % N: for N = 3, 5 the index never advances, memory lives 0 iterations. Needs: N not a power of two.",
    "C07-4": "iteration_allocator move assignment drops cur_ = other.cur_. Needs: move assignment between allocators with different current iteration, then continued use.",
    "C08-3": "memory_stack composable try_deallocate_node tests only the current block. Needs: composable memory from an older block released after the arena grew.",
    "C08-4": "type-erased try_deallocate_impl passes (size, count) for arrays. Needs: any_allocator_reference to a pool/collection as default of a fallback_allocator, array with count != size.",
    "C09-3": "allocator_polymorphic_deallocator takes the alignment of the base type. Needs: Derived with larger alignment than Base, converted deallocator.",
    "C09-4": "composable_allocator_traits default try_deallocate_array forwards size instead of count*size. Needs: a composable allocator with only the node functions, array with count > 1 released through the composable path.",
    "C10-3": "allocator_storage::try_deallocate_array forwards (ptr, size, count, alignment). Needs: container array requests on a fallback_allocator of allocator_references to a collection / tracking allocator.",
    "C10-4": "allocate_unique<T> constructs before the deallocating guard exists: a throwing constructor leaks the node. Needs: throwing constructor.",
    "C11-3": "joint_allocator::deallocate_node rewinds the joint stack for any node ending at or below the top. Needs: a vector growing inside joint memory while a later allocation is alive, then another allocation.",
    "C11-4": "joint_ptr::create releases the block with sizeof(T) only when the constructor throws. Needs: throwing joint constructor with non-zero additional size.",
    "C12-3": "iteration_allocator move assignment assigns the block allocator before releasing its own block (released through the wrong block source). Needs: move assignment onto a target that owns a block, stateful or checking block source.",
    "C12-4": "swap(ordered_free_memory_list) resets the cached insert position to (begin proxy, end proxy). Needs: move assignment of an array pool with a fragmented free list, then a release between first and last free node.",
    "C13-3": "global leak counter updated by load + store: concurrent updates of the stateless allocators' process-wide counter are lost (false leak report at exit). Needs: >= 2 threads on a stateless low-level allocator.",
    "C13-4": "new_allocator retry path swaps the new-handler with set_new_handler(nullptr)/set_new_handler(h). Needs: operator new failing in two threads at once with a handler installed.",
    "C13-5": "allocator_storage::max_node_size/max_array_size/max_alignment no longer lock. Needs: a thread querying while another allocates.",
    "C14-3": "find_unused hoists the CAS expected value out of the loop: after one failed CAS the next (busy) node is taken. Needs: >= 3 threads holding temporary stacks at once.",
    "C14-4": "memory_stack::unwind pops n-1 blocks for n >= 2 (seen through temporary_allocator scopes). Needs: a scope that grew the stack by two or more blocks.",
    "C15-3": "same as C13-3 (global leak counter load + store), observed as a wrong amount at exit.",
    "C15-4": "object_leak_checker move assignment swaps counts: the moved-from object reports the target's old net. Needs: move assignment onto a target with non-zero net.",
    "C16-3": "~memory_arena releases used blocks before purging the cache: LIFO-only block sources report a valid history. Needs: cached arena on static/virtual source destroyed with used and cached blocks.",
    "C16-4": "small list chunk::from inclusive at the end: a foreign pointer exactly one node past a chunk's last node is linked in silently. Needs: rwd (pointer check on, assertions off), release of last node + node_size.",
    "C17-3": "debug_fill_free reports the rear fence first and the front fence only if the rear is clean. Needs: both fences corrupted.",
    "C17-4": "memory_pool composable try_deallocate_array drops the size argument (releases count nodes): the freed pattern and links go over live neighbours. Needs: composable array release with element size below the node size.",
    "C18-3": "memory_arena::next_block_size subtracts the header offset for cached blocks too: next_capacity() announces 16 bytes less than delivered while a block is cached. Needs: cached arena / stack with a cached block.",
    "C18-4": "memory_pool traits allocate_array takes count nodes, deallocate gives back ceil(count*size/node). Needs: traits array with element size below node size.",
    "C19-3": "round_up_to_multiple_of_alignment rounds to nearest (alignment/2 bias): small pool min_block_size a few bytes short. Needs: small pool, node_size % 8 in 5..7, count a multiple of 255.",
    "C19-4": "free_list_array move assignment drops no_elements_. Needs: move assignment between collections with different max_node_size.",
    "C20-3": "joint_array move-with-joint constructor marked noexcept: a throwing element move terminates. Needs: the move form with a throwing move constructor.",
    "C20-4": "joint_array builder unwinds the joint stack (debug fill) before destroying the elements: destructors run on overwritten elements. Needs: fill on, failure at index >= 1, element whose destructor depends on its contents.",
    # round 3
    "C01-5": "memory_stack::top() takes the marker's block index from arena_.capacity()-1 (used + cached) instead of size()-1: with a cached block, unwind(m) takes the same-block branch for a marker in the previous block. Needs: grow, unwind across the boundary, top(), grow again, unwind(marker).",
    "C01-6": "fixed_memory_stack::allocate drops '- size' from the capacity check: size and padding+fences are compared separately. Needs: a request at the tail of a region that fits without its padding but not with it (static_allocator, try_allocate, iteration try_allocate, collection reservations).",
    "C02-5": "fixed_memory_stack::allocate computes the alignment padding after the space check. Needs: misaligned top, request into the last bytes of the block through static_allocator / try_allocate / joint memory / collection reservations.",
    "C02-6": "swap(ordered_free_memory_list) no longer swaps node_size_: move assignment keeps the target's old node size. Needs: move assignment between array pools (debug: node pools) with different node sizes, target larger.",
    "C03-5": "allocator_storage::allocate_array uses lock(); ...; unlock() instead of a lock_guard: a throwing allocator leaves the mutex locked. Needs: real mutex, stateful allocator, failing array request, then any further use.",
    "C03-6": "joint_array iterator-range constructor constructs the element before bumping: the element that does not fit is written past the block before out_of_fixed_memory. Needs: range longer than the remaining joint memory, something watching the bytes behind the block.",
    "C04-5": "ordered_free_memory_list move constructor initialises the last-deallocation cache to (begin proxy, end proxy). Needs: move-construct a pool with free nodes, then a release between two free nodes.",
    "C04-6": "memory_pool_collection::try_deallocate_node refuses node_size >= max_node_size() (allocation uses >). Needs: composable release of a node of exactly the maximum size.",
    "C05-5": "static_block_allocator::allocate_block advances cur_ before the exhaustion check: a failed request loses a block, the next LIFO release is reported invalid. Needs: exhaustion, then continued use.",
    "C06-5": "memory_stack::allocate switches stack_ to the new block only after the bad_allocation_size checks (arena already grown). Needs: refused oversize request, exception caught, further use before unwinding.",
    "C06-6": "~temporary_allocator no longer unwinds before shrink_to_fit (the member unwinder runs after the body). Needs: shrink_to_fit() on a scope that grew the stack.",
    "C07-5": "iteration_allocator::try_allocate bounds the request by block_end(cur_+1). Needs: try_allocate that does not fit the current region, live memory in the next one.",
    "C07-6": "iteration_allocator move constructor re-creates the stacks from block_start(i). Needs: allocate, move-construct, allocate again in the same iteration.",
    "C08-5": "tracked_allocator::try_deallocate_array calls the tracker even when the allocator refused. Needs: tracked default of a fallback_allocator, array served by the fallback, tracker with a ledger.",
    "C08-6": "composable traits of memory_pool release count*node_size() bytes for an array. Needs: composable array release, element size below the node size, live node behind the array.",
    "C09-5": "tracked_allocator::is_stateful ignores a non-empty tracker: references to tracked<stateful tracker, stateless allocator> use a static default-constructed copy. Needs: such a tracker behind allocator_reference / std_allocator.",
    "C09-6": "all stateless allocators share one identity behind any_allocator_reference: any_std_allocators over different stateless types compare equal. Needs: two stateless types, an operation that depends on equality.",
    "C10-5": "std_allocator::propagate_on_container_swap takes the copy-assignment trait. Needs: user propagation_traits with copy false / swap true, swap of containers on different allocators.",
    "C10-6": "allocator_polymorphic_deallocator converting constructor records sizeof/alignof of the base. Needs: unique_ptr<Derived, allocator_deallocator> converted to the base with different size.",
    "C11-5": "joint_array builder destructor unwinds before destroying (same mechanism as C20-4, found again independently).",
    "C11-6": "fixed_memory_stack::allocate compares padding+fences with remaining, not remaining - size. Needs: misaligned joint stack top, capacity in the narrow window.",
    "C12-5": "small_free_memory_list move constructor keeps the cached chunk markers (they may point at the moved-from proxy). Needs: move-construct a small pool before its first deallocation, moved-from storage reused.",
    "C12-6": "object_leak_checker move constructor does not zero the source. Needs: live traits allocations at the move, destruction of the moved-from object.",
    "C13-5": "allocator_storage::max_node_size/max_array_size/max_alignment no longer lock. Needs: a thread querying while another allocates.",
    "C13-6": "the composable members of allocator_storage only try_lock and report failure when the mutex is busy. Needs: contention on a composable member and a look at its result.",
    "C13-7": "allocator_storage::allocate_node/array lock and unlock explicitly: an exception leaves the mutex locked. Needs: throwing wrapped allocator, then further use.",
    "C14-5": "same mechanism as C06-5 seen through temporary_allocator scopes.",
    "C14-6": "temporary_stack_list_node push retries its CAS with a stale next_: nodes pushed in between are cut out of the list. Needs: two threads creating stacks at once (hook points 6/7).",
    "C15-5": "memory_pool_collection move assignment drops the leak_checker assignment. Needs: move assignment with non-zero net.",
    "C15-6": "lowlevel_allocator::deallocate_node counts size instead of size + 2*fence. Needs: fences on, process-wide leak report at exit.",
    "C16-5": "memory_stack::unwind drops the index check: a stale marker in a later (cached) block at a lower address is accepted. Needs: pointer check on, assertions off, descending block addresses.",
    "C16-6": "swap(memory_arena) no longer swaps the cache: move assignment releases cached blocks to the wrong block source. Needs: cached arenas on LIFO-only sources, move assignment with a non-empty cache.",
    "C17-5": "fixed_memory_stack::allocate rearranged check underflows with fences when remaining - size < 2*fence. Needs: fences, request of the last bytes.",
    "C17-6": "ordered list allocate(n): array starting exactly at the last deallocated node leaves the cache pointing into the live array. Needs: the release pattern n0,n9,n5,n6,n4, allocate_array(3), release n2.",
    "C18-5": "same mechanism as C06-5 (capacity_left() meaningless after a refused request).",
    "C18-6": "fixed_memory_stack::allocate fit test forgets the trailing fence. Needs: fences, try_allocate of the last 1..8 bytes.",
    "C19-5": "log2_access_policy::index_from_size caches its last result in unsynchronised function-local statics. Needs: two threads selecting buckets for different sizes.",
    "C19-6": "is_valid_alignment uses the 32-bit popcount: alignments >= 2^32 are invalid. Needs: assertions on (debug) or a direct look at the predicate.",
    "C20-5": "array element roll-back catches only std::exception. Needs: constructor throwing a non-std type at index >= 1.",
    "C20-6": "joint_array move-into-joint constructor sets other.size_ = 0: the source's moved-from elements are never destroyed. Needs: the move form succeeding, counted constructions.",
    # round 4
    "C02-7": "memory_stack::allocate switches stack_ to the new block only after the bad_allocation_size checks (third independent rediscovery of C06-5).",
    "C02-8": "aligned_allocator move assignment drops min_alignment_. Needs: move assignment from an allocator with a larger minimum, then a request with a smaller alignment.",
    "C03-7": "memory_pool::try_allocate_array drops the free_list_.empty() guard: on an exactly empty ordered list the search runs through the end proxy. Needs: exhausted array pool, any try_ array request.",
    "C03-8": "out_of_memory constructor guards the handler call with a thread_local flag that a throwing handler leaves set: later failures on that thread skip the handler. Needs: a handler that throws its own exception, then a second failure.",
    "C04-7": "small free list insert_chunks sets cur->prev = begin: backward links skip the later chunks of a multi-chunk block inserted below an existing chunk. Needs: > 255 nodes per block, later block at a lower address, release in a later chunk.",
    "C04-8": "ordered list allocate(n) single-node shortcut is n < node_size_: a request of exactly one node takes two. Needs: array of exactly the node size.",
    "C05-7": "temporary_stack_list_node push uses one compare_exchange_strong without retry: a stack created concurrently is never linked, never reused, never freed. Needs: two threads creating stacks at once (points 6/7).",
    "C05-8": "virtual_block_allocator::deallocate_block decommits before moving cur_: the returned block stays committed, the pages above are decommitted. Needs: a look at page state, or a full arena.",
    "C06-7": "memory_stack::unwind checks contains(m.top) (half-open) instead of comparing the block end: a marker taken on an exactly full block is reported. Needs: marker at capacity_left() == 0, growth, unwind.",
    "C06-8": "memory_arena::next_block_size subtracts the header offset for cached blocks too (rediscovery of C18-3).",
    "C08-7": "fallback_allocator::try_deallocate_array drops the result of the second attempt. Needs: nested fallback as default, array served by the inner fallback.",
    "C08-8": "memory_pool_collection::try_deallocate_node refuses node_size >= max_node_size() (rediscovery of C04-6).",
    "C09-7": "binary_segregator::deallocate_array asks use_allocate_node(count*size). Needs: a Segregatable whose array rule differs from its node rule.",
    "C09-8": "allocate_unique releases its guard before the constructor runs. Needs: throwing constructor.",
    "C10-7": "std_allocator's shared tag is computed from the reference type: shared allocators compare by the address of the embedded copy. Needs: an is_shared_allocator type, equality of copies.",
    "C10-8": "allocator_storage::allocate_array keeps the mutex when the allocator throws (rediscovery of C03-5).",
    "C13-8": "is_thread_safe_allocator is true for every empty class: an empty allocator that declares itself stateful gets no mutex. Needs: such an allocator, two threads.",
    "C13-9": "allocator_storage::allocate_array/deallocate_array return early for count == 1, before the lock. Needs: one-element arrays from one thread while another uses the storage.",
    "C14-7": "the thread exit detector keeps its own stack pointer, which ~temporary_stack_initializer does not reset: a thread releases the same stack again at exit. Needs: initializer scope ended, stack adopted by another thread, first thread exits.",
    "C14-8": "find_unused claims a stack with a relaxed CAS: no happens-before between the old and the new owner. Needs: ThreadSanitizer, no other synchronisation between the two threads.",
    "C16-7": "memory_stack::unwind re-evaluates its loop bound while the arena shrinks: about half the blocks are returned and the valid marker is reported. Needs: unwind across two or more blocks.",
    "C16-8": "small free list insert_chunks sets cur->prev = begin (same change as C04-7): a valid release is reported / crashes.",
    "C19-7": "composable traits of memory_pool_collection pass (size, count): the bucket is chosen by the element count. Needs: composable array with count and size selecting different buckets.",
    "C19-8": "allocator_traits<memory_pool_collection>::allocate_array checks alignment_for(count*size). Needs: alignment above alignment_for(size), traits interface.",
}
res = {}
if os.path.exists("/tmp/mut/results.jsonl"):
    for l in open("/tmp/mut/results.jsonl"):
        r = json.loads(l)
        res["%s-%d" % (r["property"], r["n"])] = r
kept = 0
for key, r in sorted(res.items()):
    if not r.get("confirmed"):
        print("not confirmed, not kept:", key, r.get("confirm"))
        continue
    pid, n = key.split("-")
    src = "/tmp/mut/%s/out" % pid
    dst = os.path.join(ROOT, "seeded", key)
    os.makedirs(dst, exist_ok=True)
    shutil.copy(os.path.join(src, "patch%s.diff" % n), os.path.join(dst, "patch.diff"))
    shutil.copy(os.path.join(src, "demo%s.cpp" % n), os.path.join(dst, "demo.cpp"))
    if os.path.exists(os.path.join(src, "notes%s.md" % n)):
        shutil.copy(os.path.join(src, "notes%s.md" % n), os.path.join(dst, "notes.md"))
    meta = {"property": pid, "breaks": NEEDS.get(key, ""), "origin": "written by an independent sub-agent that saw only the property text and a scratch worktree",
            "confirmed_by": "tools/mutant.py --confirm: scratch worktree of /repo HEAD; the repository's suite built and run with the change; demonstration built and run with and without it",
            "confirmation": r.get("confirm"),
            "checks_run": r.get("checks")}
    prev = os.path.join(dst, "meta.json")
    if os.path.exists(prev):
        old = json.load(open(prev))
        for k in ("checks_run_after_strengthening", "caught_by", "note"):
            if k in old:
                meta[k] = old[k]
    json.dump(meta, open(prev, "w"), indent=1)
    kept += 1
print("kept", kept)
