#!/usr/bin/env python3
"""Copies confirmed seeded changes from /tmp/mut/<ID>/out into /verif/seeded/<ID>-<n>/ with meta.json (from /tmp/mut/results.jsonl)."""
import json
import os
import shutil
import sys

ROOT = os.path.dirname(os.path.dirname(os.path.abspath(__file__)))
NEEDS = {
    "C01-1": "ordered free list: allocate(n) with '<' instead of '<=' against the cached deallocation position: an array that starts exactly at the most recently freed node leaves the cache pointing into the live array; a later single-node release between the front free node and that array writes a link into live memory. Needs: free X+1, free X, allocate_array(2) -> [X,X+1], free a node in front.",
    "C01-2": "memory_stack::allocate growth path: the new block becomes current in the arena before the size checks, stack_ is switched after them; a request above next_capacity() throws bad_allocation_size with the arena and the stack pointing at different blocks; later allocations run past the old block. Needs: an oversized request (exception caught) followed by further allocations.",
    "C02-1": "memory_stack::allocate recomputes the alignment offset after growth without the fence: first allocation in a fresh block misaligned by the fence size. Needs: debug fences, growth, alignment >= 16.",
    "C02-2": "unordered list_search_array keeps bytes_so_far across a gap: an array handed out 1+ nodes short, its tail nodes stay on the free list. Needs: release build (unordered node list), fragmented free list with a short run before a non-adjacent node, array of >= 3 nodes.",
    "C03-1": "memory_stack growth check drops the alignment offset: an over-aligned request close to next_capacity() is served running past the block end instead of bad_allocation_size. Needs: growth, alignment > 16 (>= 16 with fences), size within alignment-1 of the block capacity.",
    "C03-2": "growing_block_allocator doubles block_size_ before the upstream call: a failed growth changes next_capacity() and the retry asks for twice as much. Needs: upstream failure exactly at a growth call, then a query or a retry.",
    "C04-1": "unordered list_search_array sets prev = first instead of last on restart: unlinking the found run also cuts the nodes of the abandoned short run out of the list, capacity over-reports. Needs: release build, array request with a too-short run of >= 2 adjacent nodes before a fitting run.",
    "C04-2": "collection try_allocate_array requests count * pool.node_size() bytes but release gives back count * node_size: each try_ array cycle with an element smaller than the bucket's node loses nodes. Needs: composable array path, element size below bucket node size.",
    "C05-1": "~memory_arena pops the used blocks before shrink_to_fit(): older blocks go back while younger cached ones are outstanding (not LIFO). Needs: destruction of a cached arena / memory_stack with used and cached blocks.",
    "C05-2": "swap(memory_arena) no longer swaps the cache base: cached blocks are returned to the wrong block source / released at once. Needs: swap or move assignment of cached arenas / stacks while one holds a cached block.",
    "C06-1": "memory_stack::unwind releases n-1 blocks when crossing n >= 2 block boundaries. Needs: one unwind across two or more boundaries.",
    "C06-2": "same change as C05-2 seen through memory_stack move assignment: cached blocks freed immediately, replay addresses differ, shrink_to_fit releases nothing.",
    "C07-1": "iteration_allocator::block_end rounds up while block_start rounds down: neighbouring regions share one byte. Needs: size % N != 0, a region filled to its last byte, then the next region's first allocation; fence-0 configurations only.",
    "C07-2": "iteration_allocator::allocate bounds check rearranged so that it underflows when fewer than 2*fence bytes would remain: memory reaching into the next region. Needs: debug fences, throwing allocate(), request within 16 bytes of capacity_left().",
    "C08-1": "memory_pool composable array limit checks use capacity_left() instead of max_array_size(): try_deallocate_array refuses the pool's own array when the pool is nearly full. Needs: composable array release while fewer free bytes than the array remain.",
    "C08-2": "memory_block::contains inclusive at the end: iteration_allocator accepts a sibling's node that starts exactly one past its block. Needs: adjacent storages and the sibling's very first byte.",
    "C09-1": "aligned_allocator move assignment drops min_alignment_: blocks released with a smaller alignment than requested, new requests under-aligned. Needs: two aligned_allocators with different minimum alignment, move assignment, then release/allocation.",
    "C09-2": "tracked_allocator::try_deallocate_array reports to the tracker if (ptr) instead of if (res). Needs: composable path, array served by the fallback, its release through the composition.",
    "C10-1": "type-erased target() returns nullptr for every stateless allocator: any_std_allocators over different stateless allocator types compare equal. Needs: two different stateless RawAllocator types behind any_std_allocator and an equality-dependent operation.",
    "C10-2": "allocate_unique<T[]> failure guard uses the scalar deallocator: on a throwing element constructor the array is released as one node. Needs: n > 1, throwing default constructor, allocator that distinguishes node from array.",
    "C11-1": "joint_array range constructor constructs the element before bumping the joint stack: with exactly one element more than fits, it is written past the block before out_of_fixed_memory. Needs: iterator-range form, capacity for k elements, k+1 given.",
    "C11-2": "joint_ptr move assignment no longer transfers the allocator reference: the block is released through the wrong allocator. Needs: move assignment between joint_ptrs bound to different allocator objects.",
    "C12-1": "ordered_free_memory_list move constructor writes both neighbour links with xor_list_set: with exactly one free node the node stays linked to the moved-from object's proxy. Needs: move of an array pool at the moment exactly one node is free, then use of the new owner.",
    "C12-2": "swap(static_block_allocator) does not swap block_size_. Needs: move assignment or swap between allocators/arenas with different block sizes.",
    "C13-1": "allocator_storage::try_deallocate_array: the lock_guard became a temporary (locks and unlocks at once). Needs: real mutex, stateful composable allocator, exactly this member.",
    "C13-2": "locked_allocator (lock() proxy) move constructor does not reset other.mutex_: the moved-from proxy unlocks too. Needs: the proxy actually moved and used afterwards.",
    "C14-1": "get_temporary_stack() no longer ODR-uses the thread exit detector: a thread that adopts a stack never releases it. Needs: >= 3 sequential threads without initializer.",
    "C14-2": "temporary_stack_list::clear marks the stack free before shrink_to_fit(): another thread adopts it while the old owner still purges it. Needs: a thread creating/initialising its stack while another runs clear().",
    "C15-1": "collection traits allocate_node counts on_allocate before the allocation that may throw. Needs: a throwing allocate_node (exhausted fixed source or bad size), caller carries on, destruction.",
    "C15-2": "memory_pool traits deallocate_array counts ceil(count*size/node)*node bytes while allocate counts count*size. Needs: array whose byte size is not a multiple of the node size.",
    "C16-1": "ordered list find_pos uses less_equal against last_dealloc_prev: a double free of the predecessor of the most recently freed node is linked silently. Needs: debug (double-free check), free(n2), free(n3), free(n2).",
    "C16-2": "static_block_allocator::allocate_block bumps cur_ before the capacity test: after one failed allocation every valid LIFO release is reported as invalid. Needs: exhausted static storage, exception caught, then a valid release.",
    "C17-1": "debug_is_filled word-at-a-time scan computes the tail length wrongly: the last start%8 bytes of an unaligned fence are not checked. Needs: node size not a multiple of 8, write confined to the last bytes of the trailing fence.",
    "C17-2": "lowlevel_allocator::deallocate_node checks debug_fence_size (8) bytes although 16 are written. Needs: fence 8 and a write into the far half of either fence.",
    "C18-1": "same mechanism as C03-2 (block size grown before the upstream call): next_capacity() doubles after a failed growth, later growth delivers another amount than announced.",
    "C18-2": "small_free_memory_list::insert drops a trailing chunk of exactly one node while usable_size() counts it: next_capacity() announces one node more than growth delivers; collections crash in insert_rest. Needs: usable block size = k*stride + header + node_size.",
    "C19-1": "alignment_for fast path returns max_alignment for every size >= 16. Needs: node size above 16 that is not a multiple of 16.",
    "C19-2": "free_list_array::get compares the size with the minimum index: log2 buckets for node/array lists return array_[-1] for size 4. Needs: log2 collection of node/array pools asked for size exactly 4.",
    "C20-1": "joint_array builder returns early when size_ == 0 (also the state after element 0 threw): joint memory not unwound. Needs: throw at element index 0, object kept alive, joint memory used again.",
    "C20-2": "allocator_deallocator<T[]> releases a length-1 array as a node. Needs: allocate_unique<T[]>(alloc, 1) with a throwing constructor on an allocator that distinguishes node from array.",
}
res = {}
if os.path.exists("/tmp/mut/results.jsonl"):
    for l in open("/tmp/mut/results.jsonl"):
        r = json.loads(l)
        res["%s-%d" % (r["property"], r["n"])] = r
kept = 0
for key, r in sorted(res.items()):
    if not r.get("confirmed"):
        print("not confirmed, not kept:", key, r.get("confirm"))
        continue
    pid, n = key.split("-")
    src = "/tmp/mut/%s/out" % pid
    dst = os.path.join(ROOT, "seeded", key)
    os.makedirs(dst, exist_ok=True)
    shutil.copy(os.path.join(src, "patch%s.diff" % n), os.path.join(dst, "patch.diff"))
    shutil.copy(os.path.join(src, "demo%s.cpp" % n), os.path.join(dst, "demo.cpp"))
    if os.path.exists(os.path.join(src, "notes%s.md" % n)):
        shutil.copy(os.path.join(src, "notes%s.md" % n), os.path.join(dst, "notes.md"))
    meta = {"property": pid, "breaks": NEEDS.get(key, ""), "origin": "written by an independent sub-agent that saw only the property text and a scratch worktree",
            "confirmed_by": "tools/mutant.py --confirm: scratch worktree of /repo HEAD; the repository's suite built and run with the change; demonstration built and run with and without it",
            "confirmation": r.get("confirm"),
            "checks_run": r.get("checks")}
    prev = os.path.join(dst, "meta.json")
    if os.path.exists(prev):
        old = json.load(open(prev))
        for k in ("checks_run_after_strengthening", "caught_by", "note"):
            if k in old:
                meta[k] = old[k]
    json.dump(meta, open(prev, "w"), indent=1)
    kept += 1
print("kept", kept)
