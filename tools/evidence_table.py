#!/usr/bin/env python3
"""Prints a markdown table of what the evidence files say (tools/evidence_table.py [dir])."""
import json
import os
import sys

ROOT = os.path.dirname(os.path.dirname(os.path.abspath(__file__)))
d = sys.argv[1] if len(sys.argv) > 1 else os.path.join(ROOT, "evidence")
print("| id | tier | configurations | cases | distinct non-trivial | wall | largest event counters |")
print("|---|---|---|---|---|---|---|")
for i in range(1, 21):
    p = os.path.join(d, "C%02d.json" % i)
    if not os.path.exists(p):
        continue
    e = json.load(open(p))
    c = e["coverage"]
    ev = sorted(((v, k) for k, v in c.get("events", {}).items() if isinstance(v, (int, float)) and not k.startswith(("new_fill", "freed_fill"))), reverse=True)[:6]
    print("| %s | %s | %s | %s | %s | %.0f s | %s |" % (e["property_id"], e["tier"], " ".join(c.get("configs", [])), c.get("evaluations"), c.get("distinct_nontrivial"),
                                                      e.get("wall_s", 0), ", ".join("%s=%s" % (k, v) for v, k in ev)))
