#!/usr/bin/env python3
"""Runs tools/mutant.py for every /tmp/mut/<ID>/out/patchN.diff (confirmation + the property's own check), a few in parallel."""
import glob
import json
import os
import subprocess
import sys
from concurrent.futures import ThreadPoolExecutor

ROOT = os.path.dirname(os.path.dirname(os.path.abspath(__file__)))
only = sys.argv[1].split(",") if len(sys.argv) > 1 and sys.argv[1] != "all" else None
NUMS = [int(x) for x in sys.argv[2].split(",")] if len(sys.argv) > 2 else [1, 2]
extra = {}  # property -> additional checks worth running
done = set()
if os.path.exists("/tmp/mut/results.jsonl"):
    for l in open("/tmp/mut/results.jsonl"):
        try:
            done.add(json.loads(l)["name"])
        except (ValueError, KeyError):
            pass
jobs = []
for d in sorted(glob.glob("/tmp/mut/C*/out")):
    pid = d.split("/")[3]
    if only and pid not in only:
        continue
    for n in NUMS:
        patch, demo_src = os.path.join(d, "patch%d.diff" % n), os.path.join(d, "demo%d.cpp" % n)
        if os.path.exists(patch) and os.path.exists(demo_src) and "%s_%d" % (pid, n) not in done:
            jobs.append((pid, n, patch, demo_src))


def run(j):
    pid, n, patch, demo_src = j
    name = "%s_%d" % (pid, n)
    p = subprocess.run([sys.executable, os.path.join(ROOT, "tools", "mutant.py"), patch, name, "--confirm", demo_src, "--props", pid],
                       stdout=subprocess.PIPE, stderr=subprocess.STDOUT, text=True, env=dict(os.environ, VERIF_COMPILE_JOBS="8"))
    last = [l for l in p.stdout.splitlines() if l.startswith("{")]
    rec = json.loads(last[-1]) if last else {"name": name, "error": p.stdout[-500:]}
    rec["property"] = pid
    rec["n"] = n
    with open("/tmp/mut/results.jsonl", "a") as f:
        f.write(json.dumps(rec) + "\n")
    c = rec.get("checks", {}).get(pid, {})
    print("%s confirmed=%s check_exit=%s keys=%s" % (name, rec.get("confirmed"), c.get("exit"), c.get("keys", [])[:2]), flush=True)


with ThreadPoolExecutor(max_workers=4) as ex:
    list(ex.map(run, jobs))
